#include "axllib"
import from SingleInteger;
R == Record(x: SingleInteger, y: SingleInteger);
import from R;
r: R := [1, 2];
print << r.x + r.y << newline;
