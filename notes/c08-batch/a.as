#include "axllib"
print << "hello" << newline;
