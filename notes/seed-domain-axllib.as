#include "axllib"
SI ==> SingleInteger;
import from SI, String;

Shape: Category == with {
	area: % -> SI;
	name: % -> String;
	describe: % -> String;
	default describe(s: %): String == concat(name s, "!");
}

Box(T: with { coerce: SI -> %; coerce: % -> SI }): Shape with { box: (SI, SI) -> % } == add {
	Rep ==> Record(w: T, h: T);
	import from Rep;
	box(a: SI, b: SI): % == per [a::T, b::T];
	area(s: %): SI == (rep(s).w)::SI * (rep(s).h)::SI;
	name(s: %): String == "box";
}

Wrap: with { coerce: SI -> %; coerce: % -> SI } == add {
	Rep ==> SI;
	coerce(n: SI): % == per n;
	coerce(x: %): SI == rep x;
}

main(): () == {
	import from Box Wrap, List Box Wrap;
	l: List Box Wrap := [box(i, i+1) for i: SI in 1..50];
	t: SI := 0;
	for b in l repeat t := t + area b;
	print << "@1 " << t << " " << describe first l << newline;
}
main();
