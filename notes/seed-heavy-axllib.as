#include "axllib"
SI ==> SingleInteger;
import from SI, Integer, String, Boolean;
import from List SI, List Integer, Array SI;

Node == Record(val: SI, kids: List SI, big: Integer);

mkNode(i: SI): Node == {
	import from Node;
	l: List SI := nil;
	for j: SI in 1..(i rem 7) repeat l := cons(i*j, l);
	[i, l, (i::Integer)^((3 + i rem 5)::Integer)]
}

adder(n: SI): SI -> SI == (x: SI): SI +-> x + n;

squares(n: SI): Generator SI == generate {
	for i: SI in 1..n repeat { l: List SI := [i, i*i]; yield first rest l }
}

fact(n: Integer): Integer == if n < 2 then 1 else n * fact(n-1);

main(): () == {
	import from Node, List Node, HashTable(SI, Integer), List(SI -> SI);
	nodes: List Node := nil;
	for i: SI in 1..300 repeat nodes := cons(mkNode i, nodes);
	s: SI := 0; b: Integer := 0;
	for nd in nodes repeat { s := s + nd.val; for k in nd.kids repeat s := s + k; b := b + nd.big }
	print << "@1 " << s << " " << b << newline;
	fs: List(SI -> SI) := [adder i for i: SI in 1..200];
	t: SI := 0;
	for f in fs repeat t := t + f(t rem 100);
	print << "@2 " << t << newline;
	q: SI := 0;
	for x in squares 400 repeat q := q + x rem 1000;
	print << "@3 " << q << newline;
	a: Array SI := new(500, 0);
	for i: SI in 1..500 repeat a.i := i * 3;
	u: SI := 0;
	for i: SI in 1..500 repeat u := u + a.i;
	print << "@4 " << u << newline;
	tb: HashTable(SI, Integer) := table();
	for i: SI in 1..300 repeat tb.i := fact((i rem 25)::Integer);
	v: Integer := 0;
	for i: SI in 1..300 repeat v := v + tb.i;
	print << "@5 " << v << newline;
	str: String := "";
	for i: SI in 1..200 repeat str := concat(str, "ab");
	print << "@6 " << #str << newline;
	print << "@7 " << fact 60 << newline;
}
main();
