#include <stdio.h>
#include <stdlib.h>
#include <string.h>
#include <stdint.h>
#include "store.h"
extern int _dont_assert;
static void *eat[200000]; static void *roots[100]; static uintptr_t hidden[100];
int main(int argc,char**argv){ int j,i; int at=atoi(argv[1]); _dont_assert=0; stoCtl(StoCtl_GcLevel, StoCtl_GcLevel_Demand);
 for(i=0;i<6;i++){ void*p=stoAlloc(3,900); memset(p,1,900); if(i%2) roots[i]=p; else hidden[i]=(uintptr_t)p ^ 0x5a5a5a5a5a5aUL; p=0; }
 for(j=0;j<at;j++) eat[j]=stoAlloc(3,200);
 stoCtl(StoCtl_GcLevel, StoCtl_GcLevel_Automatic); stoCtl(StoCtl_GcFile, stdout);
 printf("at=%d own=%lu: ",at,stoBytesOwn); fflush(stdout);
 stoFree(roots[1]); roots[1]=0;
 stoAudit(); printf(" audit ok\n"); return 0; }
