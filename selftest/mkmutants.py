#!/usr/bin/python3
"""Regenerate selftest/mutants/*.patch from (file, old, new) replacements
against /repo HEAD.  Each mutant compiles and is meant to break exactly one
claimed property in a way the pinned suite does not see."""
import os
import subprocess
import sys

SRC = "aldor/aldor/src/"
M = []


def mut(name, file, old, new, count=1):
    M.append((name, SRC + file, old, new, count))


# ---------------------------------------------------------------- C10 -------
mut("C10-resize-loses-tail", "store.c",
    "	memcpy(np, p, MIN(nbytes, osz));",
    "	memcpy(np, p, MIN(nbytes, osz) - (nbytes > 600 ? sizeof(Pointer) : 0));")
mut("C10-merge-forgets-prev-size", "store.c",
    "	IF (N) N->nbytesPrev = curr->nbytesThis;\n\n	if (stoMustTag) {\n		QmInfo *pqm = next->sect->info + qmNo(next,next->sect);",
    "	IF (N && curr->nbytesThis < 4096) N->nbytesPrev = curr->nbytesThis;\n\n	if (stoMustTag) {\n		QmInfo *pqm = next->sect->info + qmNo(next,next->sect);")
mut("C10-interior-pointer-into-follow-quanta-ignored", "store.c",
    "			while (QmInfoKind(qmtag) == QmFollow)\n				qmtag = sect->info[--qmno];",
    "			if (QmInfoKind(qmtag) == QmFollow) continue;")
mut("C10-fixed-class-boundary", "store.c",
    "		for (j = sz0; j <= sz; j++) {\n			fixedSizeFor	 [j] = sz;",
    "		for (j = sz0; j <= sz; j++) {\n			fixedSizeFor	 [j] = (j == 100) ? 96 : sz;")
mut("C10-split-remainder-size", "store.c",
    "	r->nbytesThis	     = curr->nbytesThis - nbytes;\n	r->nbytesPrev	     = nbytes;",
    "	r->nbytesThis	     = curr->nbytesThis - nbytes;\n	r->nbytesPrev	     = (nbytes == 2304) ? nbytes - MixedSizeQuantum : nbytes;")
mut("C10-sweep-frees-marked-mixed", "store.c",
    "		if (!mark && QmInfoKind(qmtag) == QmBusyFirst) {\n			MxMem	*npc   = mxmemNext(pc);",
    "		if ((!mark || (sz == 1280 && (qmno & 3) == 1)) && QmInfoKind(qmtag) == QmBusyFirst) {\n			MxMem	*npc   = mxmemNext(pc);")
mut("C10-revert-reentrancy-fix", "store.c",
    "	else if (gcLevel == StoCtl_GcLevel_Automatic && !stoInnerPages) {",
    "	else if (gcLevel == StoCtl_GcLevel_Automatic) {")

# ---------------------------------------------------------------- C09 -------
mut("C09-sweep-ignores-mark-of-one-class", "store.c",
    "		if (QmInfoKind(qmtag) == QmBusyFirst) {\n			if (mark) {\n				QmInfoClearMark(sect->info[qmno]);",
    "		if (QmInfoKind(qmtag) == QmBusyFirst) {\n			if (mark && !(qmsize == 160 && (qmno % 5) == 2)) {\n				QmInfoClearMark(sect->info[qmno]);")
mut("C09-big-mixed-piece-not-traced", "store.c",
    "			sz -= MxMemHeadSize;\n			plo = (Pointer *) (&pc->body.busy.data);\n			phi = (Pointer *) ptrOff((char *) plo, sz);",
    "			sz -= MxMemHeadSize;\n			plo = (Pointer *) (&pc->body.busy.data);\n			phi = (Pointer *) ptrOff((char *) plo, sz > 2 * PgSize ? 2 * PgSize : sz);")
mut("C09-markrange-tail-call-wrong-bound", "store.c",
    "			lo = plo;\n			hi = phi;\n			goto TailRecursion;",
    "			lo = plo;\n			hi = phi - (ptrDiff((char *) phi, (char *) plo) > 64 ? 1 : 0);\n			goto TailRecursion;")

# ---------------------------------------------------------------- C18 -------
mut("C18-one-writer-unchecked", "emit.c",
    "		sxiWrite(fout, sxCar(lispCode), glWriteMode | emitSxIoMode);\n	}\n	emitFileClose(fn, fout);",
    "		sxiWrite(fout, sxCar(lispCode), glWriteMode | emitSxIoMode);\n	}\n	fclose(fout);")
mut("C18-close-result-ignored", "emit.c",
    "	if (fclose(fout) != 0) failed = true;\n	if (failed) comsgFatal",
    "	fclose(fout);\n	if (failed) comsgFatal")
mut("C18-lib-close-unchecked", "lib.c",
    "		Bool	failed = lib->wrOpen && ferror(lib->file) != 0;",
    "		Bool	failed = false;")

# ---------------------------------------------------------------- C17 -------
mut("C17-section-read-unchecked", "lib.c",
    "	libGetChars(lib, s, cc);\n	bufStart(buf);",
    "	FILE_GET_CHARS(lib->file, s, cc);\n	bufStart(buf);")
mut("C17-no-contiguity-check", "lib.c",
    "		if( libIndexSect(lib, i).offset !=\n		    libIndexSect(lib, i-1).offset +\n		    libIndexSect(lib, i-1).length ) {",
    "		if( libIndexSect(lib, i).offset <\n		    libIndexSect(lib, i-1).offset ) {")
mut("C17-header-verdict-ignored", "lib.c",
    "	if (!libChkHeader(lib))\n		comsgFatal(NULL, ALDOR_F_LibTruncated, libToStringStatic(lib));",
    "	libChkHeader(lib);")

# ---------------------------------------------------------------- C08 -------
mut("C08-code-sort-ties-by-address", "lib.c",
    "	return symeHash(libCmpLib->symev[*i]) - symeHash(libCmpLib->symev[*j]);",
    "	int d = symeHash(libCmpLib->symev[*i]) - symeHash(libCmpLib->symev[*j]);\n	if (d == 0 && *i != *j) d = (((ULong) libCmpLib->symev[*i]) >> 4) % 3 == 0 ? -1 : 1;\n	return d;")
mut("C08-clock-in-lisp-header", "emit.c",
    '	fprintf(fout, "%s", emitLispHdFmt3);\n\n	for ( ; !sxiNull(lispCode)',
    '	fprintf(fout, "%s", emitLispHdFmt3);\n	{ extern long time(long *); if (time(0) % 2) fprintf(fout, "\\n"); }\n\n	for ( ; !sxiNull(lispCode)')
mut("C08-java-group-order-by-address", "java/genjava.c",
    "	types = listNReverse(JavaCode)(types);\n\n	/* One declaration per type, its variables in index order. */",
    "	types = listNReverse(JavaCode)(types);\n	if (types && (((ULong) car(types)) >> 5) % 3 == 1) types = listNReverse(JavaCode)(types);\n\n	/* One declaration per type, its variables in index order. */")

# ---------------------------------------------------------------- C13 -------
mut("C13-no-undo-after-tinfer-error", "axlcomp.c",
    "	compPhaseTInfer (finfo, stab, ab);\n	if (comsgErrorCount())	{\n		if (fintMode == FINT_LOOP) {\n			scoSetUndoState();",
    "	compPhaseTInfer (finfo, stab, ab);\n	if (comsgErrorCount())	{\n		if (fintMode == FINT_LOOP) {")
mut("C13-revert-verbose-stdout-fix", "fintphase.c",
    "	else if (stabGetMeanings(stab, ablogFalse(), ssymTheStdout) == listNil(Syme))",
    "	else if (false)")

# reverts of repairs found late (the check must see the defect come back)
mut("C18-revert-explicit-name-fix", "emit.c",
    "	if (emitOutputFileName[ft] &&\n	    !(emitInfoIsAXLmain(finfo) && (ft == FTYPENO_C || ft == FTYPENO_OBJECT)))\n		return emitOutputFileName[ft];",
    "	if (emitOutputFileName[ft])\n		return emitOutputFileName[ft];")
mut("C17-revert-lazylib-fatal-fix", "fint.c",
    "	if (lib == NULL)\n		comsgFatal(NULL, ALDOR_F_CantOpen,\n			   strEqual(name, \"runtime\") ? \"libfoam.al\" : aoFile);",
    "	if (lib == NULL)\n		LongJmp(fintJmpBuf, 1);")
mut("C13-revert-syntax-error-undo-fix", "axlcomp.c",
    "scopeBindSkipStep(stab);", "(void)stab;", count=4)
mut("C13-revert-include-error-undo-fix", "axlcomp.c",
    "			if (fintMode == FINT_LOOP) scopeBindSkipStep(stab);\n			inclFree(sll);", "			inclFree(sll);")

mut("C18-revert-exit-status-clamp", "main.c",
    "	return rc > 255 ? 255 : rc;", "	return rc;")

mut("C18-revert-stdin-name-fix", "fname.c",
    "	return strEqual(fnameName(fn), \"-\") &&\n	       (!fnameType(fn) || !fnameType(fn)[0]);",
    "	return strEqual(fnameName(fn), \"-\");", count=1)

mut("C13-revert-stray-iterate-fix", "ti_bup.c",
    "	if (tloopBreakCount == -1) {\n		/* Not inside a loop: reject, as for a stray `break'. */\n		abState(absyn) = AB_State_Error;\n		abTPoss(absyn) = tpossEmpty();\n	}\n	else\n		abTPoss(absyn) = tpossSingleton(tfExit);",
    "	abTPoss(absyn) = tpossSingleton(tfExit);")


mut("C09-mark-pending-drain-loses-entry", "store.c",
    "		stoMarkPendingCount--;\n		lo = stoMarkPending[stoMarkPendingCount].lo;\n		hi = stoMarkPending[stoMarkPendingCount].hi;\n		n += stoGcMarkRange(lo, hi, (int) 0);",
    "		lo = stoMarkPending[stoMarkPendingCount - 1].lo;\n		hi = stoMarkPending[stoMarkPendingCount - 1].hi;\n		n += stoGcMarkRange(lo, hi, (int) 0);\n		stoMarkPendingCount--;")
mut("C09-revert-marker-depth-bound", "store.c",
    "		if (stoMarkDepth >= StoMarkDepthMax &&\n		    stoMarkPendingCount < StoMarkPendingMax) {",
    "		if (false) {")


mut("C18-revert-main-name-fix", "emit.c",
    "	if (emitInfoIsAXLmain(finfo) && ft == FTYPENO_C &&\n	    emitOutputFileName[FTYPENO_AXLMAINC])\n		return emitOutputFileName[FTYPENO_AXLMAINC];",
    "")
mut("C18-revert-file-id-restore", "axlcomp.c",
    "	emitSetFileIdName(fileId);", "	(void) fileId;")


mut("C17-revert-archive-header-without-data", "archive.c",
    "	if (!arSeek(ar, arPosition(ar)) && size > 0)\n		/* A header that promises data at the very end of the file. */\n		comsgError(NULL, ALDOR_E_ArTruncated, arToString(ar));",
    "	arSeek(ar, arPosition(ar));")
mut("C17-revert-first-error-count", "comsg.c",
    "	comsgInit();\n	nErrors++;\n	comsg = comsgVDo(COMSG_ERROR, ab, msg, argp);", "	nErrors++;\n	comsg = comsgVDo(COMSG_ERROR, ab, msg, argp);")
mut("C13-revert-comment-brackets-fix", "scan.c",
    "	  (line[i] == '+' && line[i+1] == '+'))\n	break;", "	  (line[i] == '+' && line[i+1] == '+'))\n	{}")
mut("C13-revert-local-macro-pop", "macex.c",
    "popMacScope(MacDefScope mds)\n{\n	while", "popMacScope(MacDefScope mds)\n{\n	if (fintMode == FINT_LOOP) return;\n\n	while")
mut("C13-revert-macro-undo", "macex.c",
    "		if (macexUndoState)\n", "		if (false)\n")


mut("C18-revert-cpp-stub-close-check", "gencpp.c",
    "  if (failed) comsgFatal(NULL, ALDOR_F_CantWrite, strPrintf(\"%s/%s_cc.h\",dir,file));", "")


mut("C09-revert-memory-map-table-bound", "os_unix.c",
    "#define MAX_MMAPS 4096\n", "#define MAX_MMAPS 30\n")


mut("C18-revert-java-dir-fix", "emit.c",
    "(dir && dir[0]) ? dir : \".\",", "dir,")
mut("C18-output-dir-error-not-raised", "emit.c",
    "	if (!osDirIsThere(dir)) return -1;", "	if (!osDirIsThere(dir)) return 1;")


mut("C18-revert-split-part-name-fix", "emit.c",
    "					if (strEqual(fnnew, fnameName(fn)))\n", "					if (false)\n")


mut("C13-revert-trailing-hash-fix", "scan.c",
    "	if (scIsSysCmd && scLine)	return scanSysCommand();", "	if (scIsSysCmd)			return scanSysCommand();")
mut("C13-revert-bare-constructor-fix", "tform.c",
    "	if (tfHasSelf(tf) && tfIsId(tf) && tfIdSyme(tf) && symeExtension(tfIdSyme(tf))) {", "	if (tfHasSelf(tf) && tfIsId(tf) && symeExtension(tfIdSyme(tf))) {")


mut("C13-revert-tuple-definition-echo-fix", "fintphase.c",
    "                                if (abTag(abId) == AB_Declare)\n", "                                if (false)\n")


mut("C17-revert-mandatory-sections-in-header", "lib.c",
    "	{\n		LibSectName n;\n		for( n = LIB_NAME_START; n < LIB_NAME_LIMIT; n += 1 ) {\n			if( n == LIB_Pos || n == LIB_PosTbl ) continue;",
    "	if (0) {\n		LibSectName n;\n		for( n = LIB_NAME_START; n < LIB_NAME_LIMIT; n += 1 ) {\n			if( n == LIB_Pos || n == LIB_PosTbl ) continue;")


mut("C08-revert-java-identifier-table", "java/genjava.c",
    "CString gjCharIds[UCHAR_MAX + 1];", "CString gjCharIds[CHAR_MAX];")


def main():
    out = os.path.join(os.path.dirname(os.path.abspath(__file__)), "mutants")
    os.makedirs(out, exist_ok=True)
    wt = "/tmp/verif-mkmut-%d" % os.getpid()
    subprocess.run(["git", "-C", "/repo", "worktree", "add", "--detach", wt, "HEAD"], check=True, stdout=subprocess.DEVNULL, stderr=subprocess.DEVNULL)
    bad = 0
    try:
        for name, file, old, new, count in M:
            p = os.path.join(wt, file)
            s = open(p).read()
            if s.count(old) != count:
                print("SKIP %s: anchor found %d times (want %d)" % (name, s.count(old), count))
                bad += 1
                continue
            open(p, "w").write(s.replace(old, new))
            d = subprocess.run(["git", "-C", wt, "diff"], stdout=subprocess.PIPE, text=True).stdout
            open(os.path.join(out, name + ".patch"), "w").write(d)
            subprocess.run(["git", "-C", wt, "checkout", "--", "."], check=True)
            print("ok   %s" % name)
    finally:
        subprocess.run(["git", "-C", "/repo", "worktree", "remove", "--force", wt], stdout=subprocess.DEVNULL, stderr=subprocess.DEVNULL)
        subprocess.run(["git", "-C", "/repo", "worktree", "prune"])
    return 1 if bad else 0


if __name__ == "__main__":
    sys.exit(main())
