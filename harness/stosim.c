/*
 * stosim -- drives the real storage manager (store.c + btree.c + memclim.c +
 * opsys.c, compiler or -DFOAM_RTS variant) through its public interface with
 * an explicit operation history and checks every step against a reference
 * heap model.  OS memory is the simulated sbrk of aldorsim.c; the harness
 * plays the environment's moves (refusals, foreign break movement) too.
 *
 *   stosim HISTORY-FILE        (plan/log through $ALDORSIM_PLAN/$ALDORSIM_LOG)
 *
 * History, one operation per line (slots are taken modulo the live set):
 *   cfg check N          full model check every N steps (default 1)
 *   cfg seed N           content stream seed
 *   a BYTES CODE KIND    allocate; KIND e=exact root, i=interior root, d=dropped at once
 *   z BYTES CODE KIND    the same through stoCAlloc (the block must come back zeroed)
 *   f SLOT               free
 *   F SLOT               free, but leave the block's root word behind (dangling pointer in a root)
 *   r SLOT BYTES         resize
 *   c SLOT CODE          recode
 *   d SLOT               drop (owner forgets the block)
 *   l SLOTA SLOTB        store B's address in A's first word; B loses its own root
 *   g                    collect
 *   t                    tune (rebuild free lists)
 *   u                    audit
 *   x N                  the OS refuses the next N memory requests
 *   o PAGES              somebody else moves the break by PAGES pages
 *   v LEVEL              collection level 1=demand 2=automatic
 *   w ONOFF              wash on/off (only before the first allocation)
 *   p BYTES KIND BACK    allocate BYTES-sized blocks until the heap is BACK
 *                        allocations short of needing new pages from the OS
 *
 * Verdict on stdout: "OK steps=... " or "VIOLATION class=<c> step=<n> <detail>"
 * or "END <reason>" (history legitimately cut short, no verdict).
 */
#define _GNU_SOURCE
#include <stdio.h>
#include <stdlib.h>
#include <string.h>
#include <signal.h>
#include <unistd.h>
#include <sys/wait.h>

#include "axlgen0.h"
#include "store.h"

extern unsigned long stoVerifProbe[16];
extern int _dont_assert;
extern void simLog(const char *fmt, ...);
extern void simLogFlush(void);
extern void simSbrkRefuse(unsigned long n);
extern unsigned long simSbrkRefusePending(void);
extern int simSbrkForeign(unsigned long pages);
extern char *simLastForeign(unsigned long *pages);
extern int simSbrkForeignBytes(unsigned long nbytes);
extern char *simArenaBase(void);
extern char *simArenaBrk(void);
extern unsigned long simForcedGcCount(void);
extern unsigned long simSbrkRefusedCount(void);
extern void simLogOff(void);
extern unsigned long simArenaCap(void);

/* stoResize and stoCAlloc use the result of their inner stoAlloc without looking at it;
 * with a handler that returns null that is a null dereference.  What a handler may return
 * is not part of the property, so neither is issued when the OS might refuse memory: a
 * refusal is pending, or the arena is too full to be sure the request fits. */
static int mayBeRefused(unsigned long bytes)
{
	unsigned long used = (unsigned long) (simArenaBrk() - simArenaBase());
	return simSbrkRefusePending() || used + 2 * bytes + (24UL << 20) > simArenaCap();
}

#define MAXBLK   (1 << 17)
#define XM       0x5A5A5A5A5A5A5A5AUL
#define NOPTRCODE 31
static unsigned long LIVE_CAP = 48UL << 20;	/* cfg livecap N (MB) raises it for histories with huge blocks */

enum { K_EXACT = 'e', K_INTERIOR = 'i', K_HEAP = 'h', K_DROPPED = 'd', K_FOREIGN = 'g' };
/* K_FOREIGN: the only root word lies in memory that somebody else obtained from the OS between
 * two of the allocator's requests (a foreign run in the page map, or beyond the heap's end):
 * store.c lists that memory among the places it scans for roots. */

struct blk {
	unsigned long ax;	/* address ^ XM */
	unsigned long req;	/* requested size */
	unsigned long act;	/* stoSize at allocation */
	unsigned      code;
	int           kind;
	unsigned long stream;	/* content stream id */
	long          holder;	/* index of the block whose first word points here, or -1 */
	long          child;	/* index of the block this one's first word points to, or -1 */
	long          rootIx;	/* index in roots[], or -1 */
	unsigned long *fslot;	/* K_FOREIGN: the word in foreign memory that holds the root, or 0 */
	unsigned long dropEpoch;/* collection epoch at which it was dropped */
	long          livePos;	/* position in live[] or -1 */
};

/* The model lives in static storage, which the collector scans: every address
 * in it is masked.  Only roots[] holds real pointers. */
static struct blk B[MAXBLK];
static long nB;
static long live[MAXBLK]; static long nLive;
static long dropped[MAXBLK]; static long nDropped;
void *roots[MAXBLK];
static long freeRoot[MAXBLK]; static long nFreeRoot; static long nRoots;

static unsigned long seed0 = 1, step, checkEvery = 1, lastFull, liveBytes;
static unsigned long gcEpoch, natSeen;
static unsigned long oomSeen, cantBuild, freeBad, usedNonalloc;
static unsigned long nAllocOk, nAllocNull, nFreeOp, nResize, nGcOp, nAuditOp, nFullCheck, maxLive, nRefusedAllocs;
static int washSet;

static void verdict(const char *cls, const char *fmt, ...)
{
	va_list ap;
	char buf[512];
	va_start(ap, fmt);
	vsnprintf(buf, sizeof buf, fmt, ap);
	va_end(ap);
	printf("VIOLATION class=%s step=%lu %s\n", cls, step, buf);
	fflush(stdout);
	simLog("V %s %lu\n", cls, step);
	simLogFlush();
	_exit(1);
}

static void onSignal(int sig)
{
	char buf[128];
	int n = snprintf(buf, sizeof buf, "VIOLATION class=%s step=%lu signal=%d\n",
			 sig == SIGABRT ? "audit" : "fault", step, sig);
	(void) !write(1, buf, (size_t) n);
	simLogFlush();
	_exit(1);
}

static MostAlignedType *handler(int errnum)
{
	switch (errnum) {
	case StoErr_OutOfMemory: oomSeen++; break;
	case StoErr_CantBuild:
		cantBuild++;
		printf("END cantbuild step=%lu\n", step);
		fflush(stdout);
		simLogFlush();
		_exit(0);
	case StoErr_FreeBad: freeBad++; break;
	case StoErr_UsedNonalloc: usedNonalloc++; break;
	}
	return 0;
}

static unsigned long mix(unsigned long z)
{
	z += 0x9E3779B97F4A7C15UL;
	z = (z ^ (z >> 30)) * 0xBF58476D1CE4E5B9UL;
	z = (z ^ (z >> 27)) * 0x94D049BB133111EBUL;
	return z ^ (z >> 31);
}

/* Content streams never look like heap pointers: top byte 0xA5. */
static unsigned long streamWord(unsigned long stream, unsigned long i)
{
	return (mix(stream * 0x100000001B3UL + i) >> 8) | 0xA500000000000000UL;
}

static void fill(char *p, unsigned long n, unsigned long stream, unsigned long from)
{
	unsigned long i;
	for (i = from; i < n; i++) {
		unsigned long w = streamWord(stream, i >> 3);
		p[i] = (char) (w >> ((i & 7) * 8));
	}
}

/* first differing offset in [from, n), or n */
static unsigned long cmpStream(const char *p, unsigned long n, unsigned long stream, unsigned long from)
{
	unsigned long i;
	for (i = from; i < n; i++) {
		unsigned long w = streamWord(stream, i >> 3);
		if (p[i] != (char) (w >> ((i & 7) * 8))) return i;
	}
	return n;
}

static char *addrOf(struct blk *b) { return (char *) (b->ax ^ XM); }

/* Collections the harness did not ask for: natural ones (the allocator's own
 * decision) and those the plan forced at an allocation. */
static void noteNatural(void)
{
	unsigned long n = stoVerifProbe[11] + simForcedGcCount();
	if (n != natSeen) { gcEpoch += n - natSeen; natSeen = n; }
}

static long rootAlloc(void)
{
	return nFreeRoot ? freeRoot[--nFreeRoot] : nRoots++;
}

#define FOREIGN_PATTERN 0x4645524f464e4721UL
#define MAXFREG 64
static unsigned long nForeignRoots;
static struct { char *base; unsigned long pages; long used; } freg[MAXFREG];	/* foreign regions owned by the harness */
static int nFreg;

/* A fresh word of foreign memory: the last page of a region first, downwards from its end. */
static unsigned long *foreignSlot(unsigned long salt)
{
	int tries;
	if (!nFreg) return 0;
	for (tries = 0; tries < nFreg; tries++) {
		int r = (int) ((salt + (unsigned long) tries) % (unsigned long) nFreg);
		long cap = (long) (freg[r].pages * 4096 / 8) - 1;
		if (freg[r].used < cap) {
			freg[r].used++;
			nForeignRoots++;
			/* (the region may start at any byte: root words sit at word-aligned addresses, the only
			 * ones a conservative collector - and a C compiler - ever uses for pointers) */
			return (unsigned long *) (((unsigned long) (freg[r].base + freg[r].pages * 4096)) & ~7UL) - freg[r].used;
		}
	}
	return 0;
}

static void rootClear(struct blk *b)
{
	if (b->fslot) { *b->fslot = FOREIGN_PATTERN; b->fslot = 0; }
	if (b->rootIx >= 0) { roots[b->rootIx] = 0; freeRoot[nFreeRoot++] = b->rootIx; b->rootIx = -1; }
}

static void rootSet(struct blk *b)
{
	char *a = addrOf(b);
	if (b->kind == K_FOREIGN && !b->fslot) {
		b->fslot = foreignSlot(b->stream);
		if (!b->fslot) b->kind = K_EXACT;	/* no foreign memory (left): an ordinary root */
	}
	if (b->kind == K_FOREIGN) *b->fslot = (unsigned long) a;
	else if (b->kind == K_EXACT) { if (b->rootIx < 0) b->rootIx = rootAlloc(); roots[b->rootIx] = a; }
	else if (b->kind == K_INTERIOR) {
		unsigned long off = b->act > 1 ? mix(b->stream) % b->act : 0;
		if (b->rootIx < 0) b->rootIx = rootAlloc();
		roots[b->rootIx] = a + off;
	}
	else rootClear(b);
}

static int traced(struct blk *b) { return b->code != NOPTRCODE; }

static int isRooted(struct blk *b)
{
	long guard = nLive + 2;
	while (guard-- > 0) {
		if (b->kind == K_EXACT || b->kind == K_INTERIOR || b->kind == K_FOREIGN) return 1;
		if (b->kind != K_HEAP || b->holder < 0) return 0;
		if (!traced(&B[b->holder])) return 0;
		b = &B[b->holder];
	}
	return 0;	/* cycle without an outside root */
}

static void liveAdd(long ix) { B[ix].livePos = nLive; live[nLive++] = ix; liveBytes += B[ix].req; if ((unsigned long) nLive > maxLive) maxLive = (unsigned long) nLive; }
static void liveDel(long ix)
{
	long pos = B[ix].livePos, last = live[nLive - 1];
	live[pos] = last; B[last].livePos = pos; nLive--; B[ix].livePos = -1; liveBytes -= B[ix].req;
}

/* Undo "holder's first word points to its child": the owner overwrites the
 * word with the holder's stream again (it still owns the holder).  Returns the
 * former child or -1. */
static long unlinkChild(long holder)
{
	struct blk *h = &B[holder];
	long c = h->child;
	if (c < 0) return -1;
	h->child = -1;
	B[c].holder = -1;
	fill(addrOf(h), h->req < 8 ? h->req : 8, h->stream, 0);
	return c;
}

/* The block loses its owner: it and, transitively, what only it kept
 * reachable become "dropped" (may or may not be reclaimed: no claim). */
static void dropBlock(long ix)
{
	struct blk *b = &B[ix];
	long c;
	rootClear(b);
	if (b->holder >= 0) unlinkChild(b->holder);
	c = unlinkChild(ix);
	b->kind = K_DROPPED;
	b->dropEpoch = gcEpoch;
	liveDel(ix);
	dropped[nDropped++] = ix;
	if (c >= 0 && B[c].livePos >= 0 && B[c].kind == K_HEAP) dropBlock(c);
}

/* Check one live block: header facts and content. */
static void checkBlock(long ix, const char *when)
{
	struct blk *b = &B[ix];
	char *a = addrOf(b);
	unsigned long from = 0, bad;
	if (!stoIsPointer(a))
		verdict(isRooted(b) ? "lost-live" : "lost-owned", "%s: block #%ld (size %lu) is no longer an allocated piece", when, ix, b->req);
	if (stoSize(a) < b->req) verdict("too-small", "%s: block #%ld stoSize %lu < requested %lu", when, ix, stoSize(a), b->req);
	if (stoCode(a) != b->code) verdict("code", "%s: block #%ld stoCode %u != %u", when, ix, stoCode(a), b->code);
	if (b->child >= 0) {
		if (*(unsigned long *) a != (B[b->child].ax ^ XM))
			verdict("content", "%s: link word of block #%ld changed", when, ix);
		from = 8;
	}
	bad = cmpStream(a, b->req, b->stream, from);
	if (bad != b->req) verdict("content", "%s: block #%ld (size %lu) changed at offset %lu", when, ix, b->req, bad);
}

static int cmpAddr(const void *x, const void *y)
{
	unsigned long a = B[*(const long *) x].ax ^ XM, b = B[*(const long *) y].ax ^ XM;
	return a < b ? -1 : a > b;
}

static long sortBuf[MAXBLK];

static void fullCheck(const char *when)
{
	long i, n = 0;
	char *base = simArenaBase(), *brk = simArenaBrk();
	nFullCheck++;
	for (i = 0; i < nLive; i++) checkBlock(live[i], when);
	/* dropped blocks that no collection can have reclaimed yet are still owned storage */
	for (i = 0; i < nDropped; ) {
		struct blk *b = &B[dropped[i]];
		if (b->dropEpoch == gcEpoch) {
			char *a = addrOf(b);
			unsigned long bad = cmpStream(a, b->req, b->stream, b->child >= 0 ? 8 : 0);
			if (bad != b->req) verdict("content", "%s: unreclaimed block #%ld changed at offset %lu before any collection", when, dropped[i], bad);
			sortBuf[n++] = dropped[i];
			i++;
		}
		else dropped[i] = dropped[--nDropped];	/* a collection happened: no further claim */
	}
	for (i = 0; i < nLive; i++) sortBuf[n++] = live[i];
	qsort(sortBuf, (size_t) n, sizeof sortBuf[0], cmpAddr);
	for (i = 0; i < n; i++) {
		struct blk *b = &B[sortBuf[i]];
		char *a = addrOf(b);
		if (base && (a < base || a + b->act > brk))
			verdict("outside", "%s: block #%ld lies outside memory obtained from the OS", when, sortBuf[i]);
		if (i + 1 < n && a + b->act > addrOf(&B[sortBuf[i + 1]]))
			verdict("overlap", "%s: blocks #%ld and #%ld overlap", when, sortBuf[i], sortBuf[i + 1]);
	}
}

/* stoCtl(StoCtl_GcLevel, Never) is a one-way latch (store.h: "the demand and automatic gc support is
 * forever disabled"): the allocator stops keeping the per-quantum tags, so from then on nothing is
 * collected - whatever level is asked for later - and the audit, which reads the tags, has nothing to
 * check.  The model follows: no block may ever be reclaimed after the latch. */
static int gcNever;

static void doAudit(void)
{
	if (gcNever) return;
	nAuditOp++;
	_dont_assert = 0;
	stoAudit();
}

static long pickLive(unsigned long slot) { return nLive ? live[slot % (unsigned long) nLive] : -1; }

static void checkNewBlock(char *p, unsigned long bytes, const char *what)
{
	unsigned long al = 8, sz;
	while (al > bytes) al >>= 1;
	if (al && ((unsigned long) p % al) != 0) verdict("misaligned", "%s(%lu) returned an address that is %lu mod %lu", what, bytes, (unsigned long) p % al, al);
	sz = stoSize(p);
	if (sz < bytes) verdict("too-small", "%s(%lu): stoSize %lu", what, bytes, sz);
	if (!stoIsPointer(p)) verdict("lost-live", "%s(%lu): result is not an allocated piece", what, bytes);
}

static int useCAlloc;	/* next opAlloc goes through stoCAlloc and checks for zeroes */

static long opAlloc(unsigned long bytes, unsigned code, int kind)
{
	unsigned long refusedBefore = oomSeen;
	unsigned long osRefused = simSbrkRefusedCount();
	char *p;
	struct blk *b;
	if (nB >= MAXBLK - 1) return -1;
	if (bytes == 0) bytes = 1;
	if (liveBytes + bytes > LIVE_CAP) return -1;	/* keep the cost of collections and checks bounded */
	if (useCAlloc && mayBeRefused(bytes)) useCAlloc = 0;	/* stoCAlloc clears its result unchecked */
	p = (char *) (useCAlloc ? stoCAlloc(code, bytes) : stoAlloc(code, bytes));
	noteNatural();
	if (p && useCAlloc) {
		unsigned long i;
		for (i = 0; i < bytes; i++)
			if (p[i]) verdict("content", "stoCAlloc(%lu): byte %lu is not zero", bytes, i);
	}
	useCAlloc = 0;
	if (!p) {
		nAllocNull++;
		if (oomSeen == refusedBefore) verdict("null", "stoAlloc(%lu) returned null without reporting out-of-memory", bytes);
		/* legitimate only if the OS refused memory (injected refusal or arena cap) during the call */
		if (simSbrkRefusedCount() == osRefused)
			verdict("null", "stoAlloc(%lu) failed although the OS refused nothing", bytes);
		nRefusedAllocs++;
		return -1;
	}
	nAllocOk++;
	checkNewBlock(p, bytes, "stoAlloc");
	b = &B[nB];
	b->ax = (unsigned long) p ^ XM;
	b->req = bytes; b->act = stoSize(p); b->code = code & 31; b->kind = kind;
	b->stream = mix(seed0 * 1000003UL + (unsigned long) nB);
	b->holder = b->child = -1; b->rootIx = -1; b->livePos = -1; b->fslot = 0;
	fill(p, bytes, b->stream, 0);
	liveAdd(nB);
	rootSet(b);
	nB++;
	if (kind == K_DROPPED) dropBlock(nB - 1);
	else checkBlock(nB - 1, "after alloc");
	p = 0;
	return nB - 1;
}

static int keepStaleRoot;	/* next opFree leaves the block's root word behind as a dangling pointer */

static void opFree(long ix)
{
	struct blk *b = &B[ix];
	char *a = addrOf(b);
	unsigned long fb = freeBad;
	long c;
	checkBlock(ix, "before free");
	if (keepStaleRoot && b->fslot) b->fslot = 0;	/* the stale word stays behind in foreign memory */
	if (keepStaleRoot && b->rootIx >= 0) {
		/* The owner keeps a pointer it will never use again: legal, and a conservative
		 * collector must cope with root words that point into free storage. */
		b->rootIx = -1;
	}
	keepStaleRoot = 0;
	rootClear(b);
	if (b->holder >= 0) unlinkChild(b->holder);
	c = unlinkChild(ix);
	if (c >= 0 && B[c].livePos >= 0 && B[c].kind == K_HEAP) dropBlock(c);
	liveDel(ix);
	stoFree(a);
	noteNatural();
	if (freeBad != fb) verdict("freebad", "stoFree of live block #%ld reported StoErr_FreeBad", ix);
	nFreeOp++;
}

static void opResize(long ix, unsigned long bytes)
{
	struct blk *b = &B[ix];
	char *a = addrOf(b), *np;
	unsigned long keep = b->req < bytes ? b->req : bytes, bad, from;
	if (bytes == 0) bytes = 1;
	/* stoResize copies into the result of its inner stoAlloc without looking at
	 * it; with a handler that returns null that is a null dereference.  What a
	 * handler may return is not part of the property, so no resize is issued
	 * while a refusal is pending. */
	if (mayBeRefused(bytes)) return;
	if (b->child >= 0 && bytes < 8) {
		long c = unlinkChild(ix);
		if (c >= 0 && B[c].livePos >= 0 && B[c].kind == K_HEAP) dropBlock(c);
	}
	checkBlock(ix, "before resize");
	np = (char *) stoResize(a, bytes);
	noteNatural();
	nResize++;
	if (!np) verdict("null", "stoResize(%lu) returned null with no refusal pending", bytes);
	checkNewBlock(np, bytes, "stoResize");
	from = b->child >= 0 ? 8 : 0;
	if (b->child >= 0 && *(unsigned long *) np != (B[b->child].ax ^ XM))
		verdict("content", "stoResize lost the link word of block #%ld", ix);
	bad = cmpStream(np, keep, b->stream, from < keep ? from : keep);
	if (bad != keep) verdict("content", "stoResize(%lu -> %lu) did not preserve the common prefix of block #%ld (offset %lu)", b->req, bytes, ix, bad);
	if (stoCode(np) != b->code) verdict("code", "stoResize changed the code of block #%ld", ix);
	b->ax = (unsigned long) np ^ XM;
	liveBytes += bytes; liveBytes -= b->req;
	b->req = bytes; b->act = stoSize(np);
	fill(np, bytes, b->stream, b->child >= 0 ? 8 : 0);
	rootSet(b);
	if (b->holder >= 0) *(unsigned long *) addrOf(&B[b->holder]) = (unsigned long) np;
	checkBlock(ix, "after resize");
	np = 0; a = 0;
}

static void opLink(long ia, long ib)
{
	struct blk *a = &B[ia], *b = &B[ib];
	struct blk *t;
	long guard;
	if (ia == ib || a->req < 8 || a->child >= 0 || b->holder >= 0) return;
	if (((unsigned long) addrOf(a) & 7) != 0) return;
	/* refuse to build a cycle: walk up from a */
	for (t = a, guard = nLive + 2; t->holder >= 0 && guard-- > 0; t = &B[t->holder])
		if (t->holder == ib) return;
	*(unsigned long *) addrOf(a) = (unsigned long) addrOf(b);
	a->child = ib; b->holder = ia;
	rootClear(b);
	b->kind = K_HEAP;
	if (!isRooted(b)) {	/* the holder does not keep it alive (pointer-free code or itself unrooted) */
		/* keep it simple: such a block is as good as dropped */
		unlinkChild(ia);
		dropBlock(ib);
	}
}

static void opGc(void)
{
	nGcOp++;
	stoGc();
	gcEpoch++;
	noteNatural();
}

/* How many allocations of `bytes` fit before the allocator must ask the OS for
 * more pages?  Answered by a forked probe so the real state is untouched. */
static long probeFit(unsigned long bytes, long max)
{
	int pfd[2];
	pid_t pid;
	long n = 0;
	if (pipe(pfd) != 0) return 0;
	fflush(stdout);
	simLogFlush();
	pid = fork();
	if (pid == 0) {
		unsigned long own = stoBytesOwn;
		long k = 0;
		signal(SIGABRT, SIG_DFL); signal(SIGSEGV, SIG_DFL);
		simLogOff();
		close(pfd[0]);
		while (k < max) {
			void *p = stoAlloc(0, bytes);
			if (!p || stoBytesOwn != own) break;
			k++;
		}
		(void) !write(pfd[1], &k, sizeof k);
		_exit(0);
	}
	close(pfd[1]);
	if (read(pfd[0], &n, sizeof n) != sizeof n) n = 0;
	close(pfd[0]);
	waitpid(pid, 0, 0);
	return n;
}

int main(int argc, char **argv)
{
	FILE *f;
	char line[256];
	StoInfoObj info;

	if (argc < 2) { fprintf(stderr, "usage: stosim history\n"); return 2; }
	f = fopen(argv[1], "r");
	if (!f) { perror(argv[1]); return 2; }
	signal(SIGABRT, onSignal);
	signal(SIGSEGV, onSignal);
	signal(SIGBUS, onSignal);
	stoSetHandler(handler);
	info.code = NOPTRCODE; info.hasPtrs = 0;
	stoRegister(&info);
	_dont_assert = 0;

	while (fgets(line, sizeof line, f)) {
		char op[16] = ""; unsigned long a = 0, b = 0, c = 0; char k[8] = "";
		long ix;
		if (line[0] == '#' || line[0] == '\n') continue;
		if (sscanf(line, "%15s", op) != 1) continue;
		if (!strcmp(op, "cfg")) {
			char what[32] = "";
			sscanf(line, "cfg %31s %lu", what, &a);
			if (!strcmp(what, "check")) checkEvery = a ? a : 1;
			else if (!strcmp(what, "seed")) seed0 = a;
			else if (!strcmp(what, "livecap")) LIVE_CAP = a << 20;
			continue;
		}
		step++;
		switch (op[0]) {
		case 'a':
			sscanf(line, "a %lu %lu %7s", &a, &b, k);
			opAlloc(a, (unsigned) b, k[0] ? k[0] : K_EXACT);
			break;
		case 'z':	/* like a, through stoCAlloc */
			sscanf(line, "z %lu %lu %7s", &a, &b, k);
			useCAlloc = 1;
			opAlloc(a, (unsigned) b, k[0] ? k[0] : K_EXACT);
			break;
		case 'f':
			sscanf(line, "f %lu", &a);
			if ((ix = pickLive(a)) >= 0) opFree(ix);
			break;
		case 'F':	/* free, but a stale root word keeps pointing into the freed block */
			sscanf(line, "F %lu", &a);
			if ((ix = pickLive(a)) >= 0 && nRoots < MAXBLK - 8) { keepStaleRoot = 1; opFree(ix); }
			break;
		case 'r':
			sscanf(line, "r %lu %lu", &a, &b);
			if ((ix = pickLive(a)) >= 0) opResize(ix, b);
			break;
		case 'c':
			sscanf(line, "c %lu %lu", &a, &b);
			if ((ix = pickLive(a)) >= 0) {
				struct blk *bb = &B[ix];
				char *p = addrOf(bb);
				if (bb->child >= 0 && (b & 31) == NOPTRCODE) break;	/* would silently unroot the child */
				if ((char *) stoRecode(p, (unsigned) b) != p) verdict("code", "stoRecode moved block #%ld", ix);
				bb->code = (unsigned) b & 31;
				checkBlock(ix, "after recode");
			}
			break;
		case 'd':
			sscanf(line, "d %lu", &a);
			if ((ix = pickLive(a)) >= 0) { checkBlock(ix, "before drop"); dropBlock(ix); }
			break;
		case 'l':
			sscanf(line, "l %lu %lu", &a, &b);
			if (nLive >= 2) opLink(pickLive(a), pickLive(b));
			break;
		case 'g': opGc(); fullCheck("after collection"); break;
		case 't': stoTune(); noteNatural(); break;
		case 'u': doAudit(); break;
		case 'x': sscanf(line, "x %lu", &a); simSbrkRefuse(a); break;
		case 'o':
			sscanf(line, "o %lu", &a);
			if (simSbrkForeign(a) && nFreg < MAXFREG) {
				unsigned long pg; char *fb2 = simLastForeign(&pg);
				freg[nFreg].base = fb2; freg[nFreg].pages = pg; freg[nFreg].used = 0; nFreg++;
			}
			break;
		case 'O': sscanf(line, "O %lu", &a); simSbrkForeignBytes(a); break;	/* foreign break movement by bytes */
		case 'v':
			sscanf(line, "v %lu", &a);
			if (a == 0) gcNever = 1;
			stoCtl(StoCtl_GcLevel, (int) a);
			break;
		case 'w': sscanf(line, "w %lu", &a); if (!washSet && !nB) { stoCtl(StoCtl_Wash, (int) a); washSet = 1; } break;
		case 'k': {	/* a chain of n blocks, each holding the previous one through its FIRST word
				 * (not the last one: the marker cannot follow it by tail call); only the
				 * head keeps an exact root */
			long prev = -1, i, n, hx;
			sscanf(line, "k %lu %lu", &a, &b);
			if (b < 16) b = 16;
			n = (long) a;
			for (i = 0; i < n && nB < MAXBLK - 2; i++) {
				hx = opAlloc(b, 0, K_EXACT);
				if (hx < 0) break;
				if (prev >= 0 && B[prev].livePos >= 0 && B[hx].livePos >= 0) opLink(hx, prev);
				prev = hx;
			}
			break;
		}
		case 'p': {
			long n, i;
			sscanf(line, "p %lu %7s %lu", &a, k, &c);
			if (a == 0) a = 8;
			n = probeFit(a, 4000) - (long) c;
			for (i = 0; i < n && nB < MAXBLK - 2; i++) opAlloc(a, 0, k[0] ? k[0] : K_DROPPED);
			break;
		}
		default: break;
		}
		{
			/* full checks cost O(live bytes): stretch the interval as the heap grows
			 * (a pure function of the history, so still deterministic) */
			unsigned long iv = checkEvery * (1 + (unsigned long) (nLive + nDropped) / 400) * (1 + liveBytes / (2UL << 20));
			if (step - lastFull >= iv) { fullCheck("periodic"); lastFull = step; }
		}
	}
	fclose(f);
	step++;
	fullCheck("final");
	doAudit();
	printf("OK steps=%lu allocs=%lu nulls=%lu frees=%lu resizes=%lu gcs=%lu natural=%lu audits=%lu fullchecks=%lu maxlive=%lu oom=%lu own=%lu froots=%lu\n",
	       step - 1, nAllocOk, nAllocNull, nFreeOp, nResize, nGcOp, natSeen, nAuditOp, nFullCheck, maxLive, oomSeen, stoBytesOwn, nForeignRoots);
	fflush(stdout);
	return 0;
}
