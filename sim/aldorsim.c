/*
 * aldorsim.c -- the simulator library ("libaldorsim") linked into every
 * simulated world: the Aldor compiler/interpreter (aldor.sim), compiled Aldor
 * programs (runtime + program), and the allocator harness (stosim).
 *
 * It owns every seam through which something other than the input decides
 * what the system does:
 *
 *   sbrk          -> arena at a plan-chosen base; may refuse, may see foreign
 *                    break movement                       (--wrap=sbrk)
 *   fopen         -> files under the run's sandbox become fopencookie streams
 *                    whose callbacks are the simulated disk (--wrap=fopen)
 *   unlink/rename/mkdir -> traced, mkdir may fail          (--wrap=...)
 *   time/times/clock    -> virtual clock with jumps        (--wrap=...)
 *   getpid        -> plan value                            (--wrap=getpid)
 *   main          -> seeded stack displacement             (--wrap=main)
 *   stdin         -> unbuffered cookie stream fed in plan-chosen chunks
 *   stoAlloc hook -> the plan decides at which allocations a collection runs
 *
 * The library only EXECUTES an explicit plan (file named by $ALDORSIM_PLAN);
 * it draws no random numbers and reads no real clock.  Every decision and
 * seam crossing is appended to the event log ($ALDORSIM_LOG) with write(2);
 * log lines contain no raw addresses, pids or wall-clock values.
 */
#define _GNU_SOURCE
#include <stdio.h>
#include <stdlib.h>
#include <string.h>
#include <stdarg.h>
#include <errno.h>
#include <fcntl.h>
#include <unistd.h>
#include <time.h>
#include <alloca.h>
#include <sys/mman.h>
#include <sys/stat.h>
#include <sys/times.h>
#include <sys/types.h>

/* ---- the hook surface of store.c (guard ALDOR_VERIF) ------------------- */
extern void (*stoVerifAllocHook)(unsigned code, unsigned long nbytes);
extern void (*stoVerifFreeHook)(void *p, unsigned long nbytes, int how);
extern unsigned char stoVerifNewFill, stoVerifFreeFill;
extern unsigned long stoVerifProbe[16];
extern void stoGc(void);
extern void stoAudit(void);
extern int  stoCtl(int cmd, ...);
extern unsigned long stoBytesOwn, stoBytesAlloc, stoBytesFree, stoBytesGc;
extern int _dont_assert;
#define StoCtl_Wash 3

/* ---- log ---------------------------------------------------------------- */
static int    logFd = -1;
static char   logBuf[1 << 16];
static size_t logLen;

void simLogFlush(void)
{
	size_t off = 0;
	if (logFd < 0) { logLen = 0; return; }
	while (off < logLen) {
		ssize_t n = write(logFd, logBuf + off, logLen - off);
		if (n <= 0) break;
		off += (size_t) n;
	}
	logLen = 0;
}

void simLog(const char *fmt, ...)
{
	va_list ap;
	int n;
	if (logFd < 0) return;
	if (logLen + 256 > sizeof logBuf) simLogFlush();
	va_start(ap, fmt);
	n = vsnprintf(logBuf + logLen, 256, fmt, ap);
	va_end(ap);
	if (n > 255) n = 255;
	if (n > 0) logLen += (size_t) n;
}

static void simDie(const char *msg)
{
	static const char pre[] = "aldorsim: ";
	(void) !write(2, pre, sizeof pre - 1);
	(void) !write(2, msg, strlen(msg));
	(void) !write(2, "\n", 1);
	simLogFlush();
	_exit(99);
}

/* ---- plan --------------------------------------------------------------- */
enum { CLS_AO, CLS_FM, CLS_C, CLS_H, CLS_LSP, CLS_JAVA, CLS_ASY, CLS_AP,
       CLS_AI, CLS_MAIN, CLS_SRC, CLS_LIB, CLS_OTHER, CLS_CPPH, CLS_CPPAS, CLS_N };
static const char *clsName[CLS_N] = { "ao", "fm", "c", "h", "lsp", "java",
	"asy", "ap", "ai", "main", "src", "lib", "other", "cpph", "cppas" };

enum { FF_ENOSPC, FF_EIO, FF_CLOSEFAIL, FF_OPENFAIL, FF_CRASH, FF_MKDIRFAIL };

#define MAXGCAT  (1 << 16)
#define MAXSMALL 64
#define MAXCHUNK 8192

static struct {
	int            loaded;
	/* layout */
	int            haveBase;
	unsigned long  heapBase;
	unsigned long  sbrkCap;
	long           stackPad;
	/* fill */
	int            wash;		/* -1 leave alone, 0 off, 1 on */
	int            gcLevel;		/* -1 leave alone, 1 demand, 2 automatic */
	unsigned long  washWinA, washWinLen;	/* debugging aid: wash only allocations in a window */
	/* collection schedule */
	unsigned long  gcAt[MAXGCAT]; int nGcAt; int gcAtCur;
	struct { unsigned long a, len; } gcWin[MAXSMALL]; int nGcWin;
	struct { unsigned long k, j, from, to; } gcPer[MAXSMALL]; int nGcPer;
	struct { unsigned long bits, salt, from, to; } gcHash[MAXSMALL]; int nGcHash;
	unsigned long  gcAfterSize[MAXSMALL]; int nGcAfter;
	unsigned long  gcCap;
	unsigned long  auditEvery;	/* audit after every n-th forced gc */
	int            auditBefore;	/* also audit before it */
	unsigned long  auditAllocK, auditAllocJ, auditAllocCap;	/* audit at every K-th allocation (offset J), at most cap times */
	int            traceAllocs;
	/* clock, pid */
	long           clockBase;
	struct { unsigned long call; long delta; } jump[MAXSMALL]; int nJump;
	int            pid;
	/* file system */
	char           fsRoot[1024]; size_t fsRootLen;
	struct { int kind, cls; long a, b; int nth, fired; } ff[MAXSMALL]; int nFf;	/* nth: only the nth file of the class opened for writing (0 = any) */
	int            inodeMode;	/* 0 real, 1 low 16 bits collide, 2 low 8 bits collide, 3 huge sequential */
	/* memory supply */
	struct { unsigned long call, n; } refuse[MAXSMALL]; int nRefuse;
	struct { unsigned long call, pages; } foreign[MAXSMALL]; int nForeign;
	/* stdin */
	char           stdinPath[1024];
	int            chunk[MAXCHUNK]; int nChunk;
	long           eofAt;
} P;

static int clsOfName(const char *s)
{
	int i;
	for (i = 0; i < CLS_N; i++) if (!strcmp(s, clsName[i])) return i;
	if (!strcmp(s, "any")) return -1;
	simDie("plan: unknown file class");
	return -1;
}

static char planBuf[1 << 20];

static void planLoad(void)
{
	const char *path = getenv("ALDORSIM_PLAN");
	const char *lpath = getenv("ALDORSIM_LOG");
	char *line, *save = 0;
	int fd; ssize_t n; size_t len = 0;

	if (P.loaded) return;
	P.loaded = 1;
	P.sbrkCap = 1UL << 30;
	P.wash = -1;
	P.gcLevel = -1;
	P.gcCap = 400;
	P.clockBase = 1000000000L;
	P.pid = 4242;
	P.eofAt = -1;

	if (lpath && *lpath) {
		logFd = open(lpath, O_WRONLY | O_CREAT | O_APPEND | O_CLOEXEC, 0644);
		if (logFd >= 0 && logFd < 10) {	/* keep low descriptors free */
			int nfd = fcntl(logFd, F_DUPFD_CLOEXEC, 200);
			if (nfd >= 0) { close(logFd); logFd = nfd; }
		}
	}
	if (!path || !*path) return;
	fd = open(path, O_RDONLY | O_CLOEXEC);
	if (fd < 0) simDie("cannot open plan");
	while ((n = read(fd, planBuf + len, sizeof planBuf - 1 - len)) > 0) len += (size_t) n;
	close(fd);
	planBuf[len] = 0;

	for (line = strtok_r(planBuf, "\n", &save); line; line = strtok_r(0, "\n", &save)) {
		char w[8][256]; int nw;
		memset(w, 0, sizeof w);
		if (line[0] == '#' || !line[0]) continue;
		nw = sscanf(line, "%255s %255s %255s %255s %255s %255s %255s %255s",
			    w[0], w[1], w[2], w[3], w[4], w[5], w[6], w[7]);
		if (nw < 1) continue;
#define U(i) strtoul(w[i], 0, 0)
#define L(i) strtol(w[i], 0, 0)
		if (!strcmp(w[0], "seed")) ;
		else if (!strcmp(w[0], "heapbase")) { P.haveBase = 1; P.heapBase = strtoul(w[1], 0, 16); }
		else if (!strcmp(w[0], "stackpad")) P.stackPad = L(1);
		else if (!strcmp(w[0], "mmaps")) {
			/* the process has N more writable mappings of its own (a host application, other
			 * libraries): each a single page between two inaccessible ones, so that no two are
			 * adjacent; filled with a non-pointer pattern */
			long k, nmm = L(1);
			for (k = 0; k < nmm && k < 4096; k++) {
				char *m = mmap(0, 3 * 4096, PROT_NONE, MAP_PRIVATE | MAP_ANONYMOUS, -1, 0);
				unsigned long q;
				if (m == MAP_FAILED) break;
				mprotect(m + 4096, 4096, PROT_READ | PROT_WRITE);
				for (q = 0; q < 4096; q += 8) *(unsigned long *) (m + 4096 + q) = 0x4645524f464e4721UL;
			}
		}
		else if (!strcmp(w[0], "envpad")) ;	/* realised by the orchestrator */
		else if (!strcmp(w[0], "wash")) {
			if (!strcmp(w[1], "on")) {
				P.wash = 1;
				if (nw >= 4) {
					stoVerifNewFill  = (unsigned char) strtoul(w[2], 0, 16);
					stoVerifFreeFill = (unsigned char) strtoul(w[3], 0, 16);
				}
			}
			else P.wash = 0;
		}
		else if (!strcmp(w[0], "gclevel")) P.gcLevel = (int) L(1);
		else if (!strcmp(w[0], "washwin")) { P.washWinA = U(1); P.washWinLen = U(2); }
		else if (!strcmp(w[0], "fill")) {	/* fill bytes only; washing itself left to the world */
			stoVerifNewFill  = (unsigned char) strtoul(w[1], 0, 16);
			stoVerifFreeFill = (unsigned char) strtoul(w[2], 0, 16);
		}
		else if (!strcmp(w[0], "gc")) {
			if (!strcmp(w[1], "at")) {
				if (P.nGcAt >= MAXGCAT) simDie("plan: too many gc at");
				P.gcAt[P.nGcAt++] = U(2);
			}
			else if (!strcmp(w[1], "win")) {
				if (P.nGcWin >= MAXSMALL) simDie("plan: too many gc win");
				P.gcWin[P.nGcWin].a = U(2); P.gcWin[P.nGcWin].len = U(3); P.nGcWin++;
			}
			else if (!strcmp(w[1], "per")) {
				if (P.nGcPer >= MAXSMALL) simDie("plan: too many gc per");
				P.gcPer[P.nGcPer].k = U(2) ? U(2) : 1; P.gcPer[P.nGcPer].j = U(3);
				P.gcPer[P.nGcPer].from = nw > 4 ? U(4) : 0;
				P.gcPer[P.nGcPer].to = nw > 5 ? U(5) : ~0UL;
				P.nGcPer++;
			}
			else if (!strcmp(w[1], "hash")) {
				if (P.nGcHash >= MAXSMALL) simDie("plan: too many gc hash");
				P.gcHash[P.nGcHash].bits = U(2); P.gcHash[P.nGcHash].salt = U(3);
				P.gcHash[P.nGcHash].from = nw > 4 ? U(4) : 0;
				P.gcHash[P.nGcHash].to = nw > 5 ? U(5) : ~0UL;
				P.nGcHash++;
			}
			else if (!strcmp(w[1], "after-size")) {
				if (P.nGcAfter >= MAXSMALL) simDie("plan: too many gc after-size");
				P.gcAfterSize[P.nGcAfter++] = U(2);
			}
			else if (!strcmp(w[1], "cap")) P.gcCap = U(2);
			else simDie("plan: bad gc line");
		}
		else if (!strcmp(w[0], "audit")) {
			if (!strcmp(w[1], "every")) P.auditEvery = U(2);
			else if (!strcmp(w[1], "before")) P.auditBefore = 1;
			else if (!strcmp(w[1], "alloc")) { P.auditAllocK = U(2); P.auditAllocJ = U(3); P.auditAllocCap = nw > 4 ? U(4) : 2000; }
		}
		else if (!strcmp(w[0], "trace")) { if (!strcmp(w[1], "allocs")) P.traceAllocs = 1; }
		else if (!strcmp(w[0], "clock")) {
			int i;
			P.clockBase = L(1);
			for (i = 2; i + 2 < nw && !strcmp(w[i], "jump"); i += 3) {
				if (P.nJump >= MAXSMALL) break;
				P.jump[P.nJump].call = U(i + 1); P.jump[P.nJump].delta = L(i + 2); P.nJump++;
			}
		}
		else if (!strcmp(w[0], "clockjump")) {
			if (P.nJump < MAXSMALL) { P.jump[P.nJump].call = U(1); P.jump[P.nJump].delta = L(2); P.nJump++; }
		}
		else if (!strcmp(w[0], "pid")) P.pid = (int) L(1);
		else if (!strcmp(w[0], "fs")) {
			if (!strcmp(w[1], "inodes")) {
				P.inodeMode = !strcmp(w[2], "collide16") ? 1 : !strcmp(w[2], "collide8") ? 2 :
					      !strcmp(w[2], "huge") ? 3 : 0;
			}
			else if (!strcmp(w[1], "root")) {
				strncpy(P.fsRoot, w[2], sizeof P.fsRoot - 2);
				P.fsRootLen = strlen(P.fsRoot);
				while (P.fsRootLen > 1 && P.fsRoot[P.fsRootLen - 1] == '/') P.fsRoot[--P.fsRootLen] = 0;
			}
			else {
				int k = -1;
				if (P.nFf >= MAXSMALL) simDie("plan: too many fs faults");
				if (!strcmp(w[1], "enospc")) k = FF_ENOSPC;
				else if (!strcmp(w[1], "eio")) k = FF_EIO;
				else if (!strcmp(w[1], "closefail")) k = FF_CLOSEFAIL;
				else if (!strcmp(w[1], "openfail")) k = FF_OPENFAIL;
				else if (!strcmp(w[1], "crash")) k = FF_CRASH;
				else if (!strcmp(w[1], "mkdirfail")) k = FF_MKDIRFAIL;
				else simDie("plan: bad fs line");
				P.ff[P.nFf].kind = k;
				if (k == FF_MKDIRFAIL) { P.ff[P.nFf].cls = -1; P.ff[P.nFf].a = L(2); }
				else {
					int q = 4;
					P.ff[P.nFf].cls = clsOfName(w[2]);
					P.ff[P.nFf].a = L(3);
					P.ff[P.nFf].b = 0;
					if (nw > q && strcmp(w[q], "file")) { P.ff[P.nFf].b = L(q); q++; }
					if (nw > q + 1 && !strcmp(w[q], "file")) P.ff[P.nFf].nth = (int) L(q + 1);
				}
				P.nFf++;
			}
		}
		else if (!strcmp(w[0], "sbrk")) {
			if (!strcmp(w[1], "cap")) P.sbrkCap = U(2);
			else if (!strcmp(w[1], "refuse")) {
				if (P.nRefuse >= MAXSMALL) simDie("plan: too many sbrk refuse");
				P.refuse[P.nRefuse].call = U(2); P.refuse[P.nRefuse].n = U(3); P.nRefuse++;
			}
			else if (!strcmp(w[1], "foreign")) {
				if (P.nForeign >= MAXSMALL) simDie("plan: too many sbrk foreign");
				P.foreign[P.nForeign].call = U(2); P.foreign[P.nForeign].pages = U(3); P.nForeign++;
			}
		}
		else if (!strcmp(w[0], "stdin")) {
			/* stdin PATH [chunks n1,n2,...] [eof N]; the list may be long */
			char *c = strstr(line, " chunks "), *e = strstr(line, " eof ");
			strncpy(P.stdinPath, w[1], sizeof P.stdinPath - 1);
			if (e) P.eofAt = strtol(e + 5, 0, 0);
			if (c) {
				c += 8;
				while (*c && *c != ' ') {
					long v = strtol(c, &c, 10);
					if (P.nChunk < MAXCHUNK) P.chunk[P.nChunk++] = v > 0 ? (int) v : 1;
					if (*c == ',') c++;
				}
			}
		}
		else simDie("plan: unknown line");
#undef U
#undef L
	}
	/* gc at list must be sorted for the cursor */
	{
		int i, j;
		for (i = 1; i < P.nGcAt; i++) {
			unsigned long v = P.gcAt[i];
			for (j = i; j > 0 && P.gcAt[j - 1] > v; j--) P.gcAt[j] = P.gcAt[j - 1];
			P.gcAt[j] = v;
		}
	}
}

/* ---- counters reported at exit ----------------------------------------- */
static unsigned long nAlloc, nForcedGc, nAudit, nFree, nSwept;
static unsigned long nFsOp[8];	/* O R W S C U N M */
static unsigned long nSbrk, nSbrkRefused, nSbrkForeign, nClock, nStdinChunks;
static unsigned long nFaultFired;

/* ---- collection schedule (allocation hook) ------------------------------ */
static int inHook;
static unsigned long lastSize, nAllocAudit;

static unsigned long mix64(unsigned long z)
{
	z += 0x9E3779B97F4A7C15UL;
	z = (z ^ (z >> 30)) * 0xBF58476D1CE4E5B9UL;
	z = (z ^ (z >> 27)) * 0x94D049BB133111EBUL;
	return z ^ (z >> 31);
}

static void simAudit(void)
{
	int save = _dont_assert;
	_dont_assert = 0;
	simLogFlush();
	stoAudit();
	_dont_assert = save;
	nAudit++;
}

/* Other code in the world (harness, tests) may ask for these. */
unsigned long simAllocCount(void) { return nAlloc; }
unsigned long simForcedGcCount(void) { return nForcedGc; }
unsigned long simSbrkRefusedCount(void) { return nSbrkRefused; }
void simLogOff(void) { logLen = 0; logFd = -1; }

static void simAllocHook(unsigned code, unsigned long nbytes)
{
	unsigned long ix;
	int want = 0, i;

	if (inHook) return;
	inHook = 1;
	ix = ++nAlloc;
	if (P.wash >= 0) stoCtl(StoCtl_Wash, P.wash);
	if (P.washWinLen) stoCtl(StoCtl_Wash, ix >= P.washWinA && ix < P.washWinA + P.washWinLen);
	if (P.gcLevel > 0) stoCtl(1 /* StoCtl_GcLevel */, P.gcLevel);
	if (P.traceAllocs) simLog("A %lu %lu %u\n", ix, nbytes, code);

	while (P.gcAtCur < P.nGcAt && P.gcAt[P.gcAtCur] < ix) P.gcAtCur++;
	if (P.gcAtCur < P.nGcAt && P.gcAt[P.gcAtCur] == ix) { want = 1; P.gcAtCur++; }
	for (i = 0; !want && i < P.nGcWin; i++)
		if (ix >= P.gcWin[i].a && ix < P.gcWin[i].a + P.gcWin[i].len) want = 1;
	for (i = 0; !want && i < P.nGcPer; i++)
		if (ix >= P.gcPer[i].from && ix < P.gcPer[i].to &&
		    ix % P.gcPer[i].k == P.gcPer[i].j % P.gcPer[i].k) want = 1;
	for (i = 0; !want && i < P.nGcHash; i++)
		if (ix >= P.gcHash[i].from && ix < P.gcHash[i].to &&
		    (mix64(ix ^ P.gcHash[i].salt) & ((1UL << P.gcHash[i].bits) - 1)) == 0) want = 1;
	for (i = 0; !want && i < P.nGcAfter; i++)
		if (lastSize == P.gcAfterSize[i]) want = 1;
	lastSize = nbytes;

	if (want && nForcedGc < P.gcCap) {
		unsigned long gc0 = stoBytesGc, sw0 = nSwept;
		int aud = P.auditEvery && (nForcedGc % P.auditEvery) == 0;
		if (aud && P.auditBefore) simAudit();
		stoGc();
		nForcedGc++;
		if (aud) simAudit();
		simLog("G %lu %lu %lu %d\n", ix, stoBytesGc - gc0, nSwept - sw0, aud);
	}
	if (P.auditAllocK && nAllocAudit < P.auditAllocCap && ix % P.auditAllocK == P.auditAllocJ % P.auditAllocK) {
		nAllocAudit++;
		simAudit();
	}
	inHook = 0;
}

static void simFreeHook(void *p, unsigned long nbytes, int how)
{
	(void) p; (void) nbytes;
	if (how == 0) {
		nFree++;
		if (P.wash >= 0) stoCtl(StoCtl_Wash, P.wash);
	}
	else nSwept++;
}

/* A world may install its own hooks on top (the C10 harness does). */
void (*simUserAllocHook)(unsigned code, unsigned long nbytes);

/* ---- memory supply: sbrk ------------------------------------------------ */
static char *arenaBase, *arenaBrk, *arenaRw;	/* [base, rw) is writable */
static unsigned long refusePending;		/* set by plan or by simSbrkRefuse() */
static int arenaOff;				/* pass through to the real sbrk */
extern void *__real_sbrk(intptr_t incr);

static void arenaInit(void)
{
	void *want, *got;
	planLoad();
	if (arenaBase || arenaOff) return;
	if (!P.haveBase && !getenv("ALDORSIM_PLAN")) { arenaOff = 1; return; }
	want = P.haveBase ? (void *) P.heapBase : (void *) 0x200000000000UL;
	got = mmap(want, P.sbrkCap, PROT_NONE,
		   MAP_PRIVATE | MAP_ANONYMOUS | MAP_NORESERVE | MAP_FIXED_NOREPLACE, -1, 0);
	if (got == MAP_FAILED || got != want) simDie("cannot reserve the sbrk arena at the planned base");
	arenaBase = arenaBrk = arenaRw = (char *) got;
}

static int arenaGrow(char *nbrk)
{
	if (nbrk > arenaRw) {
		unsigned long pg = 4096;
		char *nrw = (char *) (((unsigned long) nbrk + pg - 1) & ~(pg - 1));
		if (mprotect(arenaRw, (size_t) (nrw - arenaRw), PROT_READ | PROT_WRITE) != 0) return 0;
		arenaRw = nrw;
	}
	return 1;
}

/* The environment's moves, callable by a harness between two requests. */
void simSbrkRefuse(unsigned long n) { refusePending = n; }
unsigned long simSbrkRefusePending(void) { return refusePending; }
/* where the most recent foreign break movement put its pages (for a harness that wants to own them) */
static char *lastForeignBase; static unsigned long lastForeignPages;
int simSbrkForeign(unsigned long pages)
{
	char *nb;
	unsigned long i;
	arenaInit();
	if (arenaOff) return 0;
	nb = arenaBrk + pages * 4096;
	if ((unsigned long) (nb - arenaBase) > P.sbrkCap || !arenaGrow(nb)) return 0;
	/* somebody else's data: a recognisable non-pointer pattern */
	for (i = 0; i < pages * 4096; i += 8) *(unsigned long *) (arenaBrk + i) = 0x4645524f464e4721UL;
	simLog("B %lu foreign %lu %lu\n", nSbrk, pages, (unsigned long) (arenaBrk - arenaBase));
	lastForeignBase = arenaBrk; lastForeignPages = pages;
	arenaBrk = nb;
	nSbrkForeign++;
	return 1;
}
char *simLastForeign(unsigned long *pages) { *pages = lastForeignPages; return lastForeignBase; }
/* Somebody else moves the break by an arbitrary number of BYTES (the next grant to the
 * allocator then starts at an unaligned address). */
int simSbrkForeignBytes(unsigned long nbytes)
{
	char *nb;
	unsigned long i;
	arenaInit();
	if (arenaOff || !nbytes) return 0;
	nb = arenaBrk + nbytes;
	if ((unsigned long) (nb - arenaBase) > P.sbrkCap || !arenaGrow(nb)) return 0;
	for (i = 0; i < nbytes; i++) arenaBrk[i] = (char) 0x21;
	simLog("B %lu foreignbytes %lu %lu\n", nSbrk, nbytes, (unsigned long) (arenaBrk - arenaBase));
	arenaBrk = nb;
	nSbrkForeign++;
	return 1;
}
unsigned long simArenaCap(void) { planLoad(); return P.sbrkCap; }
char *simArenaBase(void) { return arenaBase; }
char *simArenaBrk(void) { return arenaBrk; }

void *__wrap_sbrk(intptr_t incr)
{
	char *old, *nb;
	int i;
	arenaInit();
	if (arenaOff) return __real_sbrk(incr);
	if (incr == 0) return arenaBrk;
	nSbrk++;
	for (i = 0; i < P.nRefuse; i++)
		if (P.refuse[i].call == nSbrk) refusePending = P.refuse[i].n;
	for (i = 0; i < P.nForeign; i++)
		if (P.foreign[i].call == nSbrk) simSbrkForeign(P.foreign[i].pages);
	if (refusePending) {
		refusePending--;
		nSbrkRefused++;
		simLog("B %lu %ld - ENOMEM(refused)\n", nSbrk, (long) incr);
		errno = ENOMEM;
		return (void *) -1;
	}
	old = arenaBrk;
	nb = old + incr;
	if (incr < 0) {
		if (nb < arenaBase) nb = arenaBase;
		arenaBrk = nb;
		simLog("B %lu %ld %lu ok\n", nSbrk, (long) incr, (unsigned long) (old - arenaBase));
		return old;
	}
	if ((unsigned long) (nb - arenaBase) > P.sbrkCap || !arenaGrow(nb)) {
		nSbrkRefused++;
		simLog("B %lu %ld - ENOMEM(cap)\n", nSbrk, (long) incr);
		errno = ENOMEM;
		return (void *) -1;
	}
	arenaBrk = nb;
	simLog("B %lu %ld %lu ok\n", nSbrk, (long) incr, (unsigned long) (old - arenaBase));
	return old;
}

/* ---- clock, pid --------------------------------------------------------- */
static long clockNow(void)
{
	long v; int i;
	nClock++;
	v = P.clockBase + (long) nClock;
	for (i = 0; i < P.nJump; i++) if (nClock >= P.jump[i].call) v += P.jump[i].delta;
	return v;
}

time_t __wrap_time(time_t *t)
{
	long v;
	planLoad();
	v = clockNow();
	simLog("T %lu time\n", nClock);
	if (t) *t = (time_t) v;
	return (time_t) v;
}

clock_t __wrap_times(struct tms *b)
{
	long v;
	planLoad();
	v = clockNow() - P.clockBase;
	if (v < 0) v = 0;
	if (b) { b->tms_utime = v; b->tms_stime = 0; b->tms_cutime = 0; b->tms_cstime = 0; }
	return (clock_t) v;
}

clock_t __wrap_clock(void)
{
	long v;
	planLoad();
	v = clockNow() - P.clockBase;
	return (clock_t) (v < 0 ? 0 : v * 10000);
}

pid_t __wrap_getpid(void)
{
	planLoad();
	return (pid_t) P.pid;
}

/* ---- file system -------------------------------------------------------- */
extern FILE *__real_fopen(const char *path, const char *mode);
extern int __real_unlink(const char *path);
extern int __real_rename(const char *a, const char *b);
extern int __real_mkdir(const char *path, mode_t mode);

struct simFile {
	int   fd, cls, wr, ord;	/* ord: this is the ord-th file of its class opened for writing */
	unsigned long nwr;	/* write callbacks on this file */
	long  pos;		/* current offset */
	long  written;		/* bytes accepted so far on this open */
	char  base[96];
};

static unsigned long clsWrites[CLS_N];	/* write callbacks per class */
static unsigned long nEscapes;		/* files / directories the world tried to create outside its sandbox */
static char cwdBuf[1024];

static const char *baseName(const char *p)
{
	const char *s = strrchr(p, '/');
	return s ? s + 1 : p;
}

static int clsOfPath(const char *path)
{
	const char *b = baseName(path), *dot = strrchr(b, '.');
	size_t n = strlen(b);
	if (n >= 11 && !strcmp(b + n - 11, "aldormain.c")) return CLS_MAIN;
	if (n >= 5 && !strcmp(b + n - 5, "_cc.h")) return CLS_CPPH;	/* -Fc++ writes <name>_cc.h and <name>_as.as */
	if (n >= 6 && !strcmp(b + n - 6, "_as.as")) return CLS_CPPAS;
	if (!dot) return CLS_OTHER;
	if (!strcmp(dot, ".ao")) return CLS_AO;
	if (!strcmp(dot, ".fm")) return CLS_FM;
	if (!strcmp(dot, ".c")) return CLS_C;
	if (!strcmp(dot, ".h")) return CLS_H;
	if (!strcmp(dot, ".lsp")) return CLS_LSP;
	if (!strcmp(dot, ".java")) return CLS_JAVA;
	if (!strcmp(dot, ".asy")) return CLS_ASY;
	if (!strcmp(dot, ".ap")) return CLS_AP;
	if (!strcmp(dot, ".ai")) return CLS_AI;
	if (!strcmp(dot, ".as")) return CLS_SRC;
	if (!strcmp(dot, ".al")) return CLS_LIB;
	return CLS_OTHER;
}

/* Is this path inside the run's sandbox?  (textual, no symlink chasing) */
static int inSandbox(const char *path, char *abs, size_t absLen)
{
	if (!P.fsRootLen) return 0;
	if (path[0] == '/') snprintf(abs, absLen, "%s", path);
	else {
		if (!cwdBuf[0] && !getcwd(cwdBuf, sizeof cwdBuf)) return 0;
		snprintf(abs, absLen, "%s/%s", cwdBuf, path);
	}
	return !strncmp(abs, P.fsRoot, P.fsRootLen) &&
	       (abs[P.fsRootLen] == '/' || abs[P.fsRootLen] == 0);
}

static unsigned long clsOpens[CLS_N];	/* files opened for writing per class */

static int ffFind(int kind, int cls, int ord)
{
	int i;
	for (i = 0; i < P.nFf; i++)
		if (P.ff[i].kind == kind && (P.ff[i].cls == cls || P.ff[i].cls == -1) &&
		    (P.ff[i].nth == 0 || P.ff[i].nth == ord)) return i;
	return -1;
}

static ssize_t sfRead(void *c, char *buf, size_t n)
{
	struct simFile *f = c;
	ssize_t r = read(f->fd, buf, n);
	nFsOp[1]++;
	if (r > 0) f->pos += r;
	return r;
}

static ssize_t sfWrite(void *c, const char *buf, size_t n)
{
	struct simFile *f = c;
	unsigned long wno = ++clsWrites[f->cls];	/* write number within the class ... */
	unsigned long fno = ++f->nwr;			/* ... and within this file (used when a fault names a file) */
	size_t allow = n;
	int i, err = 0;
	ssize_t r;

	nFsOp[2]++;
	if ((i = ffFind(FF_CRASH, f->cls, f->ord)) >= 0 && (unsigned long) P.ff[i].a == (P.ff[i].nth ? fno : wno)) {
		size_t t = (size_t) P.ff[i].b < n ? (size_t) P.ff[i].b : n;
		if (t) (void) !write(f->fd, buf, t);
		simLog("W %s %ld %lu crash %lu\n", clsName[f->cls], f->pos, (unsigned long) n, (unsigned long) t);
		simLog("X crash\n");
		simLogFlush();
		_exit(137);
	}
	if ((i = ffFind(FF_EIO, f->cls, f->ord)) >= 0 && (unsigned long) P.ff[i].a == (P.ff[i].nth ? fno : wno)) {
		allow = 0; err = EIO; P.ff[i].fired++;
	}
	/* Device full from byte B of the file on: what lies below B can be (over)written,
	 * a write reaching beyond B is short (as the kernel does for a write straddling the
	 * end of the free space) and later ones get nothing. */
	if ((i = ffFind(FF_ENOSPC, f->cls, f->ord)) >= 0 && f->pos + (long) n > P.ff[i].a) {
		long room = P.ff[i].a - f->pos;
		if (room < 0) room = 0;
		if ((size_t) room < allow) allow = (size_t) room;
		err = ENOSPC; P.ff[i].fired++;
	}
	r = allow ? write(f->fd, buf, allow) : 0;
	if (r < 0) { err = errno; r = 0; }
	f->pos += r; f->written += r;
	if (err) {
		nFaultFired++;
		simLog("W %s %ld %lu short %ld errno %d\n", clsName[f->cls], f->pos - r, (unsigned long) n, (long) r, err);
		errno = err;
		return r;	/* short count: glibc flags the stream in error */
	}
	simLog("W %s %ld %lu ok\n", clsName[f->cls], f->pos - r, (unsigned long) n);
	return r;
}

static int sfSeek(void *c, off64_t *off, int whence)
{
	struct simFile *f = c;
	off64_t r = lseek64(f->fd, *off, whence);
	nFsOp[3]++;
	if (r < 0) return -1;
	f->pos = (long) r;
	*off = r;
	return 0;
}

static int sfClose(void *c)
{
	struct simFile *f = c;
	int i, rc = 0, err = 0;
	nFsOp[4]++;
	if (f->wr && (i = ffFind(FF_CLOSEFAIL, f->cls, f->ord)) >= 0) {
		err = (int) P.ff[i].a; P.ff[i].fired++; nFaultFired++;
	}
	close(f->fd);
	if (f->wr || err) simLog("C %s %ld %s %d\n", clsName[f->cls], f->written, err ? "fail" : "ok", err);
	free(f);
	if (err) { errno = err; rc = -1; }
	return rc;
}

FILE *__wrap_fopen(const char *path, const char *mode)
{
	char abs[2048];
	int cls, fl, wr, i, fd;
	struct simFile *f;
	FILE *fp;
	cookie_io_functions_t io = { sfRead, sfWrite, sfSeek, sfClose };

	planLoad();
	/* The collector reads /proc/<getpid()>/maps; getpid is virtual. */
	if (!strncmp(path, "/proc/", 6) && strlen(path) > 5 && !strcmp(path + strlen(path) - 5, "/maps"))
		return __real_fopen("/proc/self/maps", mode);
	if (!inSandbox(path, abs, sizeof abs)) {
		/* A file created OUTSIDE the sandbox is an output that escaped the place it was asked
		 * for: logged, and - since the world must not scribble over the machine - refused. */
		if (P.fsRootLen && (strchr(mode, 'w') || strchr(mode, 'a')) && strncmp(abs, "/dev/", 5) && strncmp(abs, "/proc/", 6)) {
			nEscapes++;
			simLog("E open %s\n", abs);
			errno = EACCES;
			return 0;
		}
		return __real_fopen(path, mode);
	}

	cls = clsOfPath(abs);
	wr = strchr(mode, 'w') || strchr(mode, 'a') || strchr(mode, '+');
	nFsOp[0]++;
	if (wr) clsOpens[cls]++;
	if (wr && (i = ffFind(FF_OPENFAIL, cls, (int) clsOpens[cls])) >= 0) {
		P.ff[i].fired++; nFaultFired++;
		simLog("O %s %s fail %d\n", clsName[cls], mode, (int) P.ff[i].a);
		errno = (int) P.ff[i].a;
		return 0;
	}
	if (strchr(mode, '+')) fl = O_RDWR | (strchr(mode, 'w') ? O_CREAT | O_TRUNC : strchr(mode, 'a') ? O_CREAT | O_APPEND : 0);
	else if (strchr(mode, 'w')) fl = O_WRONLY | O_CREAT | O_TRUNC;
	else if (strchr(mode, 'a')) fl = O_WRONLY | O_CREAT | O_APPEND;
	else fl = O_RDONLY;
	fd = open(abs, fl | O_CLOEXEC, 0644);
	if (fd < 0) {
		int e = errno;
		if (wr) simLog("O %s %s fail %d\n", clsName[cls], mode, e);
		errno = e;
		return 0;
	}
	if (!wr) {
		struct stat st;
		if (fstat(fd, &st) == 0 && S_ISDIR(st.st_mode)) { /* fopen(dir,"r") succeeds, reads fail */ }
	}
	f = malloc(sizeof *f);
	if (!f) { close(fd); errno = ENOMEM; return 0; }
	f->fd = fd; f->cls = cls; f->wr = wr; f->pos = 0; f->written = 0; f->nwr = 0; f->ord = wr ? (int) clsOpens[cls] : 0;
	snprintf(f->base, sizeof f->base, "%s", baseName(abs));
	if (fl & O_APPEND) f->pos = (long) lseek(fd, 0, SEEK_END);
	fp = fopencookie(f, mode, io);
	if (!fp) { close(fd); free(f); return 0; }
	if (wr) simLog("O %s %s ok\n", clsName[cls], mode);
	return fp;
}

int __wrap_unlink(const char *path)
{
	char abs[2048]; int r;
	planLoad();
	r = __real_unlink(path);
	if (inSandbox(path, abs, sizeof abs)) {
		int e = errno;
		nFsOp[5]++;
		simLog("U %s %s\n", clsName[clsOfPath(abs)], r == 0 ? "ok" : "fail");
		errno = e;
	}
	return r;
}

int __wrap_rename(const char *a, const char *b)
{
	char abs[2048]; int r;
	planLoad();
	r = __real_rename(a, b);
	if (inSandbox(b, abs, sizeof abs)) {
		int e = errno;
		nFsOp[6]++;
		simLog("N %s %s\n", clsName[clsOfPath(abs)], r == 0 ? "ok" : "fail");
		errno = e;
	}
	return r;
}

int __wrap_mkdir(const char *path, mode_t mode)
{
	char abs[2048]; int r, i;
	planLoad();
	if (inSandbox(path, abs, sizeof abs)) {
		nFsOp[7]++;
		if ((i = ffFind(FF_MKDIRFAIL, -1, 0)) >= 0) {
			P.ff[i].fired++; nFaultFired++;
			simLog("M fail %d\n", (int) P.ff[i].a);
			errno = (int) P.ff[i].a;
			return -1;
		}
		r = __real_mkdir(path, mode);
		{ int e = errno; simLog("M %s\n", r == 0 ? "ok" : "exists-or-fail"); errno = e; }
		return r;
	}
	if (P.fsRootLen) {
		nEscapes++;
		simLog("E mkdir %s\n", abs);
		errno = EACCES;
		return -1;
	}
	return __real_mkdir(path, mode);
}

/* File identity.  The inode number a file system hands out is not input: any set of
 * distinct numbers is legal.  For files in the sandbox the plan chooses the numbering
 * (distinct per path, but e.g. all agreeing in their low 16 bits, or all above 2^40). */
extern int __real_stat(const char *path, struct stat *buf);

int __wrap_stat(const char *path, struct stat *buf)
{
	char abs[2048];
	int r;
	planLoad();
	r = __real_stat(path, buf);
	if (r == 0 && P.inodeMode && inSandbox(path, abs, sizeof abs)) {
		static char seen[256][256]; static int nseen;
		int i;
		for (i = 0; i < nseen; i++) if (!strcmp(seen[i], abs)) break;
		if (i == nseen && nseen < 256 && strlen(abs) < 256) strcpy(seen[nseen++], abs);
		if (i < 256) {
			unsigned long k = (unsigned long) i + 1;	/* distinct per path */
			if (P.inodeMode == 1) buf->st_ino = (k << 16) | 0x1234;
			else if (P.inodeMode == 2) buf->st_ino = (k << 8) | 0x12;
			else buf->st_ino = (1UL << 40) + (k << 20);
		}
	}
	return r;
}

/* ---- stdin transport ---------------------------------------------------- */
static int  stdinFd = -1;
static long stdinDelivered;
static int  stdinChunkIx;

static ssize_t siRead(void *c, char *buf, size_t n)
{
	size_t want; ssize_t r;
	(void) c;
	if (P.eofAt >= 0 && stdinDelivered >= P.eofAt) { simLog("I eof %ld\n", stdinDelivered); return 0; }
	want = P.nChunk ? (size_t) P.chunk[stdinChunkIx % P.nChunk] : n;
	stdinChunkIx++;
	if (want > n) want = n;
	if (P.eofAt >= 0 && stdinDelivered + (long) want > P.eofAt) want = (size_t) (P.eofAt - stdinDelivered);
	r = read(stdinFd, buf, want);
	if (r > 0) { stdinDelivered += r; nStdinChunks++; simLog("I %ld %ld\n", (long) r, stdinDelivered); }
	else simLog("I eof %ld\n", stdinDelivered);
	return r;
}

static void stdinInit(void)
{
	cookie_io_functions_t io = { siRead, 0, 0, 0 };
	FILE *f;
	if (!P.stdinPath[0]) return;
	stdinFd = open(P.stdinPath, O_RDONLY | O_CLOEXEC);
	if (stdinFd < 0) simDie("cannot open the stdin script");
	f = fopencookie(0, "r", io);
	if (!f) simDie("fopencookie(stdin)");
	setvbuf(f, 0, _IONBF, 0);
	stdin = f;
}

/* ---- start and end of the world ----------------------------------------- */
static void simReport(void)
{
	int i;
	for (i = 0; i < 16; i++) if (stoVerifProbe[i]) simLog("P %d %lu\n", i, stoVerifProbe[i]);
	simLog("Z allocs %lu forcedgc %lu audits %lu frees %lu swept %lu\n", nAlloc, nForcedGc, nAudit, nFree, nSwept);
	simLog("Z fs open %lu read %lu write %lu seek %lu close %lu unlink %lu rename %lu mkdir %lu faults %lu\n",
	       nFsOp[0], nFsOp[1], nFsOp[2], nFsOp[3], nFsOp[4], nFsOp[5], nFsOp[6], nFsOp[7], nFaultFired);
	simLog("Z sbrk %lu refused %lu foreign %lu clock %lu stdin %lu\n", nSbrk, nSbrkRefused, nSbrkForeign, nClock, nStdinChunks);
	for (i = 0; i < P.nFf; i++)
		simLog("F %d %s %d\n", P.ff[i].kind, P.ff[i].cls < 0 ? "any" : clsName[P.ff[i].cls], P.ff[i].fired);
	simLogFlush();
	/* CPU time used, for the orchestrator's budgets only: beside the log, never in it (the log is
	 * the run's identity and holds nothing the kernel chooses) */
	{
		const char *lp = getenv("ALDORSIM_LOG");
		struct timespec ts;
		char pth[1100], buf[64];
		int fd, n;
		if (lp && strlen(lp) < 1000 && clock_gettime(CLOCK_PROCESS_CPUTIME_ID, &ts) == 0) {
			snprintf(pth, sizeof pth, "%s.cpu", lp);
			fd = open(pth, O_WRONLY | O_CREAT | O_TRUNC | O_CLOEXEC, 0644);
			if (fd >= 0) {
				n = snprintf(buf, sizeof buf, "%ld\n", (long) (ts.tv_sec * 1000 + ts.tv_nsec / 1000000));
				if (write(fd, buf, (size_t) n) < 0) { /* nothing to do */ }
				close(fd);
			}
		}
	}
}

__attribute__((constructor)) static void simInit(void)
{
	planLoad();
	stoVerifAllocHook = simAllocHook;
	stoVerifFreeHook = simFreeHook;
	stdinInit();
	atexit(simReport);
}

extern int __real_main(int argc, char **argv, char **envp);

int __wrap_main(int argc, char **argv, char **envp)
{
	planLoad();
	if (P.stackPad > 0) {
		volatile char *pad = alloca((size_t) P.stackPad);
		pad[0] = 0; pad[P.stackPad - 1] = 0;
		return __real_main(argc, argv, envp);
	}
	return __real_main(argc, argv, envp);
}
