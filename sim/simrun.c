/*
 * simrun -- start one simulated world: address-space randomisation off,
 * hard CPU / address-space / file-size limits, then exec.
 *   simrun [--cpu SEC] [--as BYTES] [--core] -- prog args...
 * Everything else (environment, cwd, stdio) is set up by the orchestrator.
 */
#define _GNU_SOURCE
#include <stdio.h>
#include <stdlib.h>
#include <string.h>
#include <unistd.h>
#include <sys/personality.h>
#include <sys/resource.h>

int main(int argc, char **argv)
{
	int i = 1;
	struct rlimit rl;
	long cpu = 0; unsigned long as = 0;
	while (i < argc && strcmp(argv[i], "--")) {
		if (!strcmp(argv[i], "--cpu") && i + 1 < argc) cpu = atol(argv[++i]);
		else if (!strcmp(argv[i], "--as") && i + 1 < argc) as = strtoul(argv[++i], 0, 0);
		i++;
	}
	if (i >= argc - 0 || i + 1 >= argc) { fprintf(stderr, "usage: simrun [--cpu s] [--as bytes] -- prog args\n"); return 98; }
	i++;
	if (personality(ADDR_NO_RANDOMIZE) == -1) { perror("personality"); return 98; }
	if (cpu > 0) { rl.rlim_cur = cpu; rl.rlim_max = cpu + 1; setrlimit(RLIMIT_CPU, &rl); }
	if (as > 0) { rl.rlim_cur = rl.rlim_max = as; setrlimit(RLIMIT_AS, &rl); }
	rl.rlim_cur = rl.rlim_max = 0; setrlimit(RLIMIT_CORE, &rl);
	execv(argv[i], argv + i);
	perror("execv");
	return 98;
}
