"""Seeded generator of interactive sessions (DESIGN.md Appendix A.2).

A session is a list of forms.  The generator keeps its own environment and
evaluates good forms itself (the reference model); rejected forms come from a
catalogue of ill-typed forms that are lexically complete; control lines are
`#int gc`, blanks and comments.  Forms only use names defined by accepted
earlier forms, so deleting rejected forms (or any suffix) keeps a session
closed."""

M = 10007


class Form:
    __slots__ = ("kind", "text", "marker", "value", "good")

    def __init__(self, kind, text, good=True, marker=None, value=None):
        self.kind = kind
        self.text = text if text.endswith("\n") else text + "\n"
        self.good = good
        self.marker = marker
        self.value = value

    def to_json(self):
        return {"kind": self.kind, "text": self.text, "good": self.good, "marker": self.marker, "value": self.value}


class Dialect:
    def __init__(self, name):
        self.name = name
        if name in ("axllib", "axllib-verbose"):
            self.SI = "SingleInteger"
            self.out = "print"
            self.header = ['#int verbose off', '#int timing off', '#include "axllib"',
                           'import from SingleInteger, Integer, String, List SingleInteger, Boolean;']
            self.batch_header = ['#include "axllib"', '#pile',
                                 'import from SingleInteger, Integer, String, List SingleInteger, Boolean;']
            if name == "axllib-verbose":	# the loop's default mode: every step's value is echoed
                self.header = self.header[1:]
        else:
            self.SI = "MachineInteger"
            self.out = "stdout"
            self.header = ['#include "aldor"', '#include "aldorinterp"', '#int timing off',
                           'import from MachineInteger, Integer, String, List MachineInteger, Boolean;']
            self.batch_header = ['#include "aldor"', '#include "aldorio"', '#pile',
                                 'import from MachineInteger, Integer, String, List MachineInteger, Boolean;']


class Gen:
    def __init__(self, rng, dialect="axllib", special=None):
        self.rng = rng
        self.special = special
        self.d = Dialect(dialect)
        self.n = 0
        self.mark = 0
        self.consts = {}	# name -> int
        self.vars = {}		# name -> int
        self.bigs = {}		# name -> int (Integer)
        self.strs = {}		# name -> str
        self.lists = {}		# name -> list of int
        self.funs = {}		# name -> (arity, python callable)
        self.pending = []	# names whose ill-typed definition was rejected: define them properly later
        self.pending_dom = []
        self.newtypes = ["Float", "DoubleFloat"] if dialect != "libaldor" else []	# types nothing has mentioned yet
        self.deepfun = None
        self.uses_lib = False	# the session reads the prebuilt library lx.ao
        self.macros = []	# names defined by a top-level macro
        self.bumps = {}		# name -> (variable, increment)
        self.recs = {}		# name -> {a, b}
        self.rectype = None
        self.arrs = {}		# name -> list (index 0 unused)
        self.geners = {}
        self.files = {}		# auxiliary files of the sandbox (included by some forms)
        self.forms = []

    def fresh(self, p):
        self.n += 1
        return "%s%d" % (p, self.n)

    # ---- expressions over SI (non-negative, bounded) ---------------------------
    def atom(self):
        r = self.rng
        names = list(self.consts.items()) + list(self.vars.items())
        if names and r.chance(2, 3):
            nm, v = r.choice(names)
            return nm, v
        v = r.range(0, 50)
        return "(%d + z0)" % v, v	# a bare literal would be ambiguous between the integer types

    def expr(self, depth=0):
        r = self.rng
        k = r.below(10)
        if depth >= 2 or k < 3:
            return self.atom()
        if k < 5:
            (a, av), (b, bv) = self.expr(depth + 1), self.expr(depth + 1)
            return "(%s + %s)" % (a, b), av + bv
        if k < 7:
            (a, av), (b, bv) = self.expr(depth + 1), self.atom()
            return "(((%s rem 1000) * (%s rem 1000)) rem %d)" % (a, b, M), ((av % 1000) * (bv % 1000)) % M
        if k < 9 and self.funs:
            fn, (ar, f) = r.choice(sorted(self.funs.items()))
            args = [self.expr(depth + 1) for _ in range(ar)]
            return "%s(%s)" % (fn, ", ".join("%s rem 100" % a for a, _ in args)), f(*[v % 100 for _, v in args])
        if self.lists:
            ln, lv = r.choice(sorted(self.lists.items()))
            if lv and r.chance(1, 2):
                return "first %s" % ln, lv[0]
            return "(#%s)" % ln, len(lv)
        return self.atom()

    def add(self, f):
        self.forms.append(f)
        return f

    def bexpr(self):
        """expression whose value stays small enough for any machine-integer width"""
        e, v = self.expr()
        if v > 1000000:
            return "(%s rem %d)" % (e, M), v % M
        return e, v

    # ---- good forms ----------------------------------------------------------------
    def g_const(self):
        nm = self.fresh("c")
        e, v = self.bexpr()
        self.consts[nm] = v
        return self.add(Form("const", "%s: %s == %s;" % (nm, self.d.SI, e)))

    def g_var(self):
        nm = self.fresh("v")
        e, v = self.bexpr()
        self.vars[nm] = v
        return self.add(Form("var", "%s: %s := %s;" % (nm, self.d.SI, e)))

    def g_assign(self):
        if not self.vars:
            return self.g_var()
        nm = self.rng.choice(sorted(self.vars))
        e, v = self.bexpr()
        self.vars[nm] = v
        return self.add(Form("assign", "%s := %s;" % (nm, e)))

    def g_big(self):
        nm = self.fresh("w")
        lit = self.rng.range(10 ** 19, 10 ** 24)
        if self.bigs and self.rng.chance(2, 3):
            a, av = self.rng.choice(sorted(self.bigs.items()))
            v = av * av + lit
            text = "%s: Integer := %s * %s + %d;" % (nm, a, a, lit)
        else:
            v = lit * 3
            text = "%s: Integer := %d * 3;" % (nm, lit)
        if v.bit_length() > 1500:
            v = lit
            text = "%s: Integer := %d;" % (nm, lit)
        self.bigs[nm] = v
        return self.add(Form("big", text))

    def g_str(self):
        nm = self.fresh("s")
        lit = self.rng.choice(["ab", "xyz", "hello", "q", "A b"])
        if self.strs and self.rng.chance(1, 2):
            a, av = self.rng.choice(sorted(self.strs.items()))
            self.strs[nm] = av + lit
            if self.d.name != "libaldor":
                return self.add(Form("str", '%s: String := concat(%s, "%s");' % (nm, a, lit)))
            return self.add(Form("str", '%s: String := %s + "%s";' % (nm, a, lit)))
        self.strs[nm] = lit
        return self.add(Form("str", '%s: String := "%s";' % (nm, lit)))

    def g_list(self):
        nm = self.fresh("l")
        if self.funs and self.rng.chance(1, 2):
            fn, (ar, f) = self.rng.choice(sorted(self.funs.items()))
            k = self.rng.range(1, 6)
            if ar == 1:
                self.lists[nm] = [f(i) for i in range(1, k + 1)]
                return self.add(Form("list", "%s: List %s := [%s(i) for i: %s in 1..%d];" % (nm, self.d.SI, fn, self.d.SI, k)))
            c = self.rng.range(0, 9)
            self.lists[nm] = [f(i, c) for i in range(1, k + 1)]
            return self.add(Form("list", "%s: List %s := [%s(i, %d) for i: %s in 1..%d];" % (nm, self.d.SI, fn, c, self.d.SI, k)))
        items = [self.atom() for _ in range(self.rng.range(1, 5))]
        self.lists[nm] = [v for _, v in items]
        return self.add(Form("list", "%s: List %s := [%s];" % (nm, self.d.SI, ", ".join(a for a, _ in items))))

    def cname(self):
        """a constant to close over (functions use constants and parameters only)"""
        if self.consts and self.rng.chance(2, 3):
            return self.rng.choice(sorted(self.consts.items()))
        v = self.rng.range(1, 30)
        return "(%d + z0)" % v, v

    def g_fun(self, name=None):
        r = self.rng
        nm = name or self.fresh("f")
        SI = self.d.SI
        shape = r.below(4)
        if name and shape == 1:
            shape = 0	# the corrected definition keeps the rejected one's signature (one argument)
        k = r.range(1, 9)
        cn, cv = self.cname()
        if shape == 0:
            self.funs[nm] = (1, lambda a, k=k, cv=cv: (a * k + cv) % M)
            return self.add(Form("fun", "%s(a: %s): %s == (a * %d + %s) rem %d;" % (nm, SI, SI, k, cn, M)))
        if shape == 1:
            self.funs[nm] = (2, lambda a, b, cv=cv: ((a + b) * (a + 1) + cv) % M)
            return self.add(Form("fun", "%s(a: %s, b: %s): %s == ((a + b) * (a + 1) + %s) rem %d;" % (nm, SI, SI, SI, cn, M)))
        if shape == 2:
            self.funs[nm] = (1, lambda a, k=k, cv=cv: (((a + k) * (a + k)) % M + cv) % M)
            text = ("%s(a: %s): %s == {\n   local t: %s := a + %d;\n   t := (t * t) rem %d;\n   (t + %s) rem %d\n}" %
                    (nm, SI, SI, SI, k, M, cn, M))
            return self.add(Form("fun-brace", text))

        def tri(n, k=k):
            return k if n < 2 else (n + tri(n - 1)) % M
        self.funs[nm] = (1, lambda a: tri(a % 12))
        inner = self.fresh("p")
        self.funs[inner] = (1, tri)
        self.add(Form("fun-pile", "%s(n: %s): %s ==\n  n < 2 => %d\n  (n + %s(n - 1)) rem %d" % (inner, SI, SI, k, inner, M)))
        return self.add(Form("fun", "%s(a: %s): %s == %s(a rem 12);" % (nm, SI, SI, inner)))

    def g_out(self):
        r = self.rng
        self.mark += 1
        m = "@@%d:" % self.mark
        if self.special == "stale-import" and r.chance(1, 2):
            return self.add(Form("out", '%s << "%s" << %s() << newline;' % (self.d.out, m, self.twin[2]), marker=m, value=m + "1"))
        choice = r.below(10)
        if choice < 5 or not (self.bigs or self.strs or self.lists):
            e, v = self.expr()
            val = str(v)
        elif choice < 7 and self.bigs:
            e, v = r.choice(sorted(self.bigs.items()))
            val = str(v)
        elif choice < 9 and self.strs:
            e, v = r.choice(sorted(self.strs.items()))
            val = v
        elif self.lists and self.d.name != "libaldor":
            e, v = r.choice(sorted(self.lists.items()))
            val = "list(%s)" % ", ".join(str(x) for x in v)
        else:
            e, v = self.expr()
            val = str(v)
        sp = self.rng.choice([" ", " ", " ", "\t", "  "])
        trail = self.rng.choice(["", "", "", "  ", "\t", " -- note (x"])
        return self.add(Form("out", '%s <<%s"%s" << %s << newline;%s' % (self.d.out, sp, m, e, trail), marker=m, value=m + val))

    def g_domain(self, name=None):
        """a small domain with a representation, then an import; values go through it"""
        SI = self.d.SI
        nm = name or self.fresh("D")
        k = self.rng.range(1, 9)
        mk, val = "mk" + nm, "val" + nm
        text = ("%s: with { %s: %s -> %%; %s: %% -> %s } == add {\n   Rep ==> %s;\n   %s(n: %s): %% == per n;\n"
                "   %s(x: %%): %s == rep x + %d;\n}" % (nm, mk, SI, val, SI, SI, mk, SI, val, SI, k))
        self.add(Form("domain", text))
        self.add(Form("import", "import from %s;" % nm))
        fn = self.fresh("f")
        self.funs[fn] = (1, lambda a, k=k: a + k)
        return self.add(Form("fun", "%s(a: %s): %s == %s %s a;" % (fn, SI, SI, val, mk)))

    def g_macro(self):
        """a macro for a side-effect-free expression over constants behaves like a constant"""
        nm = self.fresh("M")
        cn, cv = self.rng.choice(sorted(self.consts.items()))
        k = self.rng.range(0, 40)
        self.add(Form("macro", "%s ==> (%s + %d);" % (nm, cn, k)))
        self.consts[nm] = cv + k
        self.macros.append(nm)
        return self.forms[-1]

    def g_ifblock(self):
        if not self.vars:
            return self.g_var()
        nm = self.rng.choice(sorted(self.vars))
        k = self.rng.range(0, 60)
        a, b = self.rng.range(1, 9), self.rng.range(10, 19)
        cur = self.vars[nm]
        self.vars[nm] = cur + (a if cur > k else b)
        text = "if %s > %d then {\n   %s := %s + %d;\n} else {\n   %s := %s + %d;\n}" % (nm, k, nm, nm, a, nm, nm, b)
        return self.add(Form("if-block", text))

    def g_include(self):
        """a definition that arrives through an included file of the sandbox"""
        fn = "inc%d.as" % (len(self.files) + 1)
        c, f = self.fresh("ci"), self.fresh("fi")
        k = self.rng.range(1, 40)
        self.files[fn] = "%s: %s == %d;\n%s(a: %s): %s == (a + %s) rem %d;\n" % (c, self.d.SI, k, f, self.d.SI, self.d.SI, c, M)
        self.consts[c] = k
        self.funs[f] = (1, lambda a, k=k: (a + k) % M)
        return self.add(Form("include", '#include "%s"' % fn))

    def g_out_split(self):
        """an output statement whose expression is broken across lines inside parentheses"""
        self.mark += 1
        m = "@@%d:" % self.mark
        (a, av), (b, bv) = self.expr(), self.expr()
        text = '%s << "%s" << (%s +\n      %s) << newline;' % (self.d.out, m, a, b)
        return self.add(Form("out-split", text, marker=m, value=m + str(av + bv)))

    def g_fun_split(self):
        """a function whose header spans several lines, body in pile style"""
        SI = self.d.SI
        nm = self.fresh("f")
        k = self.rng.range(1, 9)
        self.funs[nm] = (2, lambda a, b, k=k: (a + b + k) % M)
        text = "%s(a: %s,\n      b: %s): %s ==\n  t: %s := a + b\n  (t + %d) rem %d" % (nm, SI, SI, SI, SI, k, M)
        self.add(Form("fun-split", text))
        # An indentation-structured definition is only complete when the loop has read the next
        # non-indented line, which then belongs to the same step: a rejected form there would
        # take the definition down with it (line-based step detection, see DESIGN.md 10.4).
        # The generator therefore always lets an accepted one-line form follow.
        return self.g_out()

    def g_loop(self):
        if not self.vars:
            return self.g_var()
        nm = self.rng.choice(sorted(self.vars))
        k = self.rng.range(1, 12)
        self.vars[nm] = (self.vars[nm] + k * (k + 1) // 2)
        return self.add(Form("loop", "for i: %s in 1..%d repeat %s := %s + i;" % (self.d.SI, k, nm, nm)))

    # ---- state that is mutated across steps (records, arrays, side-effecting functions) -------
    def g_bump(self):
        """a nullary function that updates a session variable and returns it"""
        if not self.vars:
            return self.g_var()
        SI = self.d.SI
        vn = self.rng.choice(sorted(self.vars))
        nm = self.fresh("b")
        k = self.rng.range(1, 9)
        self.bumps[nm] = (vn, k)
        return self.add(Form("bump", "%s(): %s == { free %s; %s := %s + %d; %s }" % (nm, SI, vn, vn, vn, k, vn)))

    def call_bump(self):
        nm = self.rng.choice(sorted(self.bumps))
        vn, k = self.bumps[nm]
        self.vars[vn] = self.vars[vn] + k
        return nm, self.vars[vn]

    def g_exprstep(self):
        """a step that is a bare expression (the loop wraps it to echo / record its value);
        with a side effect when a bump function exists: it must be evaluated exactly once"""
        if self.bumps and self.rng.chance(2, 3):
            nm, _ = self.call_bump()
            return self.add(Form("expr-step", "%s();" % nm))
        e, _ = self.bexpr()
        return self.add(Form("expr-step", "%s;" % e))

    def g_out_bump(self):
        if not self.bumps:
            return self.g_bump()
        self.mark += 1
        m = "@@%d:" % self.mark
        nm, v = self.call_bump()
        return self.add(Form("out", '%s << "%s" << %s() << newline;' % (self.d.out, m, nm), marker=m, value=m + str(v)))

    def g_record(self):
        SI = self.d.SI
        if self.recs and self.rng.chance(2, 3):
            nm = self.rng.choice(sorted(self.recs))
            fld = self.rng.choice(["a", "b"])
            e, v = self.bexpr()
            self.recs[nm][fld] = v
            self.add(Form("rec-set", "%s.%s := %s;" % (nm, fld, e)))
        else:
            if not self.rectype:
                self.rectype = self.fresh("R")
                self.add(Form("macro", "%s ==> Record(a: %s, b: %s);" % (self.rectype, SI, SI)))
                self.add(Form("import", "import from %s;" % self.rectype))
            nm = self.fresh("r")
            (a, av), (b, bv) = self.bexpr(), self.bexpr()
            self.recs[nm] = {"a": av, "b": bv}
            self.add(Form("rec", "%s: %s := [%s, %s];" % (nm, self.rectype, a, b)))
        self.mark += 1
        m = "@@%d:" % self.mark
        return self.add(Form("out", '%s << "%s" << %s.a + %s.b << newline;' % (self.d.out, m, nm, nm), marker=m,
                             value=m + str(self.recs[nm]["a"] + self.recs[nm]["b"])))

    def g_array(self):
        SI = self.d.SI
        if self.arrs and self.rng.chance(2, 3):
            nm = self.rng.choice(sorted(self.arrs))
            i = self.rng.range(1, len(self.arrs[nm]) - 1)
            e, v = self.bexpr()
            self.arrs[nm][i] = v
            self.add(Form("arr-set", "%s.%d := %s;" % (nm, i, e)))
        else:
            if not self.arrs:
                self.add(Form("import", "import from Array %s;" % SI))
            nm = self.fresh("ar")
            n, k = self.rng.range(3, 9), self.rng.range(0, 20)
            self.arrs[nm] = [k] * (n + 1)
            self.add(Form("arr", "%s: Array %s := new(%d, %d + z0);" % (nm, SI, n + 1, k)))
        i, j = self.rng.range(1, len(self.arrs[nm]) - 1), self.rng.range(1, len(self.arrs[nm]) - 1)
        self.mark += 1
        m = "@@%d:" % self.mark
        return self.add(Form("out", '%s << "%s" << %s.%d + %s.%d << newline;' % (self.d.out, m, nm, i, nm, j), marker=m,
                             value=m + str(self.arrs[nm][i] + self.arrs[nm][j])))

    def g_closure(self):
        """a function-valued constant made by a lambda that closes over a constant"""
        SI = self.d.SI
        nm = self.fresh("f")
        cn, cv = self.cname()
        k = self.rng.range(1, 9)
        self.funs[nm] = (1, lambda a, k=k, cv=cv: (a * k + cv) % M)
        return self.add(Form("closure", "%s: %s -> %s == (x: %s): %s +-> (x * %d + %s) rem %d;" % (nm, SI, SI, SI, SI, k, cn, M)))

    def g_gener(self):
        """a generator-returning function, consumed by a top-level loop into a variable"""
        SI = self.d.SI
        if not self.vars:
            return self.g_var()
        if not self.geners:
            gn = self.fresh("g")
            k = self.rng.range(1, 5)
            self.geners[gn] = k
            self.add(Form("gener", "%s(n: %s): Generator %s == generate { for i in 1..n repeat yield i * i + %d }" % (gn, SI, SI, k)))
        gn = self.rng.choice(sorted(self.geners))
        k = self.geners[gn]
        n = self.rng.range(1, 7)
        vn = self.rng.choice(sorted(self.vars))
        self.vars[vn] = self.vars[vn] + sum(i * i + k for i in range(1, n + 1))
        return self.add(Form("gener-loop", "for x in %s(%d) repeat %s := %s + x;" % (gn, n, vn, vn)))

    def g_cond(self):
        """conditional inclusion: a skipped assignment, an asserted one"""
        if not self.vars:
            return self.g_var()
        vn = self.rng.choice(sorted(self.vars))
        if self.rng.chance(1, 2):
            return self.add(Form("if-skip", "#if %s\n%s := %d;\n#endif" % (self.fresh("NOPE"), vn, self.rng.range(100, 999))))
        a = self.fresh("YEP")
        self.add(Form("assert", "#assert %s" % a))
        k = self.rng.range(100, 999)
        self.vars[vn] = k
        return self.add(Form("if-taken", "#if %s\n%s := %d + z0;\n#endif" % (a, vn, k)))

    def g_library(self):
        """a library object read in the middle of the session (lazily loaded by the interpreter)"""
        if self.uses_lib or self.d.name == "libaldor":
            return self.g_out()
        self.uses_lib = True
        self.add(Form("library", '#library LX "lx.ao"'))
        self.add(Form("import", "import from LX;"))
        self.add(Form("import", "import from Foo;"))
        self.funs["bar"] = (1, lambda a: a * a + 1)
        return self.g_out()

    def g_curried(self):
        """functions whose programs are evaluated lazily, when a LATER step calls them: a function
        returning a lambda, a curried definition, a function with a nested function"""
        SI = self.d.SI
        nm = self.fresh("f")
        k = self.rng.range(1, 9)
        shape = self.rng.below(3)
        if shape == 0:
            self.add(Form("fun-returns-lambda", "%s(k: %s): %s -> %s == (x: %s): %s +-> (x * %d + k) rem %d;" % (nm, SI, SI, SI, SI, SI, k, M)))
        elif shape == 1:
            self.add(Form("fun-curried", "%s(k: %s)(x: %s): %s == (x * %d + k) rem %d;" % (nm, SI, SI, SI, k, M)))
        else:
            inner = self.fresh("t")
            self.add(Form("fun-nested", "%s(k: %s): %s -> %s == {\n   %s(x: %s): %s == (x * %d + k) rem %d;\n   %s\n}" % (nm, SI, SI, SI, inner, SI, SI, k, M, inner)))
        outs = self.rng.range(1, 3)
        for _ in range(outs):
            a, b = self.rng.range(0, 99), self.rng.range(0, 99)
            self.mark += 1
            m = "@@%d:" % self.mark
            self.add(Form("out", '%s << "%s" << (%s(%d + z0))(%d + z0) << newline;' % (self.d.out, m, nm, a, b), marker=m, value=m + str((b * k + a) % M)))
        return self.forms[-1]

    def g_tuple(self):
        """tuple-valued steps: a bare tuple, a simultaneous assignment, a function returning several
        values whose results are bound by one step"""
        SI = self.d.SI
        r = self.rng
        vs = sorted(self.vars)
        shape = r.below(4)
        if shape == 3:
            # constants defined as a tuple, with and without declared components
            a, b = self.fresh("c"), self.fresh("c")
            (e1, v1), (e2, v2) = self.bexpr(), self.bexpr()
            self.consts[a], self.consts[b] = v1, v2
            if r.chance(1, 2):
                self.add(Form("tuple-def", "(%s: %s, %s: %s) == (%s, %s);" % (a, SI, b, SI, e1, e2)))
            else:
                self.add(Form("tuple-def", "(%s, %s) == (%s, %s);" % (a, b, e1, e2)))
            return self.g_out()
        if shape == 0 and len(vs) >= 2:
            a, b = r.sample(vs, 2)
            k = r.range(1, 9)
            self.add(Form("tuple-step", "(%s, %s);" % (a, b)))
            self.vars[a], self.vars[b] = self.vars[b], self.vars[a] + k
            self.add(Form("tuple-assign", "(%s, %s) := (%s, %s + %d);" % (a, b, b, a, k)))
        elif shape == 1:
            fn = self.fresh("d")
            k = r.range(1, 9)
            self.add(Form("fun-default", "%s(a: %s, b: %s == %d): %s == (a * 10 + b) rem %d;" % (fn, SI, SI, k, SI, M)))
            x, y = r.range(0, 99), r.range(0, 99)
            self.mark += 1
            m = "@@%d:" % self.mark
            return self.add(Form("out", '%s << "%s" << %s(%d + z0) + %s(%d + z0, %d + z0) << newline;' % (self.d.out, m, fn, x, fn, x, y),
                                 marker=m, value=m + str((x * 10 + k) % M + (x * 10 + y) % M)))
        else:
            fn, a, b = self.fresh("t"), self.fresh("v"), self.fresh("v")
            (e1, v1), (e2, v2) = self.bexpr(), self.bexpr()
            self.add(Form("fun-multi", "%s(): (%s, %s) == (%s, %s);" % (fn, SI, SI, e1, e2)))
            self.add(Form("multi-bind", "(%s, %s) := %s();" % (a, b, fn)))
            self.vars[a], self.vars[b] = v1, v2
        return self.g_out()

    def g_longline(self):
        """an output statement on one very long line (several thousand characters)"""
        self.mark += 1
        m = "@@%d:" % self.mark
        n = self.rng.range(150, 600)
        atoms = [self.atom() for _ in range(n)]
        tot = sum(v for _, v in atoms)
        return self.add(Form("out-long", '%s << "%s" << (%s) << newline;' % (self.d.out, m, " + ".join(a for a, _ in atoms)), marker=m, value=m + str(tot)))

    def g_bool(self):
        """a Boolean session variable, updated by a later step, observed through a conditional"""
        r = self.rng
        nm = self.fresh("bo")
        (e1, v1), (e2, v2) = self.bexpr(), self.bexpr()
        val = v1 > v2
        self.add(Form("bool-var", "%s: Boolean := %s > %s;" % (nm, e1, e2)))
        (e3, v3), (e4, v4) = self.bexpr(), self.bexpr()
        val = val and not (v3 > v4)
        self.add(Form("bool-set", "%s := %s and not (%s > %s);" % (nm, nm, e3, e4)))
        k1, k2 = r.range(1, 50), r.range(51, 99)
        self.mark += 1
        m = "@@%d:" % self.mark
        return self.add(Form("out", '%s << "%s" << (if %s then %d else %d) + z0 << newline;' % (self.d.out, m, nm, k1, k2), marker=m, value=m + str(k1 if val else k2)))

    def g_while(self):
        """a top-level while loop with a break"""
        if not self.vars:
            return self.g_var()
        r = self.rng
        vn = r.choice(sorted(self.vars))
        step, lim, brk = r.range(1, 9), r.range(10, 60), r.range(5, 70)
        v = self.vars[vn]
        start = v
        n = 0
        while v < start + lim and n < 200:
            v += step
            n += 1
            if v > start + brk:
                break
        self.vars[vn] = v
        w0 = self.fresh("w")
        self.add(Form("const", "%s: %s == %s;" % (w0, self.d.SI, vn)))
        self.consts[w0] = start
        return self.add(Form("while", "while %s < %s + %d repeat { %s := %s + %d; if %s > %s + %d then break }" % (vn, w0, lim, vn, vn, step, vn, w0, brk)))

    def g_catdom(self):
        """a category, a domain that has it, and a function asking `has' at run time"""
        SI = self.d.SI
        c, dn, h = self.fresh("Cat"), self.fresh("Dom"), self.fresh("hs")
        self.add(Form("category", "define %s: Category == with { nm%s: () -> String };" % (c, c)))
        self.add(Form("domain", '%s: %s with { mk%s: %s -> %% } == add { Rep ==> %s; nm%s(): String == "%s"; mk%s(n: %s): %% == per n }' % (dn, c, dn, SI, SI, c, dn, dn, SI)))
        self.add(Form("fun-has", "%s(T: Type): %s == if T has %s then 1 else 0;" % (h, SI, c)))
        self.mark += 1
        m = "@@%d:" % self.mark
        return self.add(Form("out", '%s << "%s" << %s %s + 10 * %s %s << newline;' % (self.d.out, m, h, dn, h, SI), marker=m, value=m + "1"))

    def g_deep(self):
        """steps whose evaluation recurses hundreds of interpreted frames deep (the interpreter chains
        further stacks to its head stack), with `#int gc' between them"""
        SI = self.d.SI
        r = self.rng
        if not self.deepfun:
            dn, ln = self.fresh("dp"), self.fresh("ml")
            self.deepfun = (dn, ln)
            self.add(Form("fun-deep", "%s(n: %s): %s == if n < 1 then 0 else 1 + %s(n - 1);" % (dn, SI, SI, dn)))
            self.add(Form("fun-deep", "%s(n: %s): List %s == if n < 1 then %s else cons(n, %s(n - 1));" % (ln, SI, SI, "empty" if self.d.name == "libaldor" else "nil", ln)))
        dn, ln = self.deepfun
        for _ in range(r.range(1, 3)):
            k = r.range(250, 1100)
            self.mark += 1
            m = "@@%d:" % self.mark
            if r.chance(1, 2):
                self.add(Form("out", '%s << "%s" << %s(%d + z0) << newline;' % (self.d.out, m, dn, k), marker=m, value=m + str(k)))
            else:
                self.add(Form("out", '%s << "%s" << #(%s(%d + z0)) << newline;' % (self.d.out, m, ln, k), marker=m, value=m + str(k)))
            if r.chance(2, 3):
                self.add(Form("ctl:gc", "#int gc", good=None))
                if r.chance(1, 3):
                    self.add(Form("ctl:gc", "#int gc", good=None))
        return self.g_out()

    def g_heavy(self):
        """allocation-heavy steps: a long list built by a comprehension, consumed by a later step
        (forced collections and `#int gc' fall between and inside them)"""
        SI = self.d.SI
        if not self.vars:
            return self.g_var()
        nm = self.fresh("hl")
        k = self.rng.loguniform(100, 1500)
        self.add(Form("heavy-list", "%s: List %s := [(i * i) rem %d for i: %s in 1..%d];" % (nm, SI, M, SI, k)))
        if self.rng.chance(1, 2):
            self.c_any()
        vn = self.rng.choice(sorted(self.vars))
        self.vars[vn] = self.vars[vn] + sum((i * i) % M for i in range(1, k + 1))
        self.add(Form("heavy-sum", "for x in %s repeat %s := %s + x;" % (nm, vn, vn)))
        self.mark += 1
        m = "@@%d:" % self.mark
        return self.add(Form("out", '%s << "%s" << %s << newline;' % (self.d.out, m, vn), marker=m, value=m + str(self.vars[vn])))

    def g_localmacro(self):
        """a function whose body defines a macro; the macro's name is then defined as an ordinary
        session variable (a macro local to a body must not leak into the session)"""
        SI = self.d.SI
        fn, k = self.fresh("f"), self.fresh("k")
        mul = self.rng.range(2, 9)
        self.funs[fn] = (1, lambda a, mul=mul: (a * mul) % M)
        self.add(Form("fun-localmacro", "%s(n: %s): %s == { macro %s == %d; (n * %s) rem %d }" % (fn, SI, SI, k, mul, k, M)))
        e, v = self.bexpr()
        self.vars[k] = v
        self.add(Form("var", "%s: %s := %s;" % (k, SI, e)))
        return self.g_out()

    def g_where(self):
        """a definition whose body is a `where' expression with a local function"""
        SI = self.d.SI
        fn, loc = self.fresh("f"), self.fresh("t")
        cn, cv = self.cname()
        k = self.rng.range(2, 9)
        self.funs[fn] = (1, lambda a, k=k, cv=cv: (a * k + cv) % M)
        return self.add(Form("fun-where", "%s(x: %s): %s == (%s(x) + %s) rem %d where { %s(y: %s): %s == y * %d };" %
                             (fn, SI, SI, loc, cn, M, loc, SI, SI, k)))

    def g_macro2(self):
        """the keyword form of a macro definition"""
        nm = self.fresh("M")
        cn, cv = self.rng.choice(sorted(self.consts.items()))
        k = self.rng.range(0, 40)
        self.add(Form("macro", "macro %s == (%s + %d);" % (nm, cn, k)))
        self.consts[nm] = cv + k
        self.macros.append(nm)
        return self.forms[-1]

    # ---- rejected forms (state must be unchanged afterwards) ---------------------------------
    def b_any(self, only=None):
        r = self.rng
        SI = self.d.SI
        if self.special == "stale-import":
            # the only rejected kind of these dedicated sessions: an import of a type that an
            # earlier form has used (qualified), inside a step that is then rejected
            return self.add(Form("bad:import-after-use", 'import from %s; %s << (z0 + "a") << newline;' % (self.twin[1], self.d.out), good=False))
        opts = []
        if self.consts:
            opts.append("assign-const")
        if self.vars:
            opts.append("bad-assign")
        if any(ar == 2 for ar, _ in self.funs.values()):
            opts.append("missing-arg")
        if any(ar == 1 for ar, _ in self.funs.values()):
            opts.append("surplus-arg")
        if self.lists:
            opts.append("bad-cons")
        opts += ["undefined", "bad-return", "bad-def", "bad-def", "bad-import", "bad-block"]
        if self.funs:
            opts.append("bad-overload")
        if self.d.name != "libaldor":
            opts.append("bad-domain")
        if self.newtypes:
            opts.append("bad-first-type")
        opts.append("bad-syntax")
        opts += ["dup-param", "wild", "wild", "missing-export", "macro-argc"]
        opts += ["no-include", "no-library", "endif", "hash-error", "percent", "scan-err", "bad-import2", "bad-partial", "bare-ctor"]
        if self.vars:
            opts += ["enum-lit", "bad-lhs", "multi-lhs"]
        if self.macros:
            opts += ["bad-macro-redef", "bad-macro-redef"]
        opts += ["bad-with-import"]
        # (a second definition with the signature of an existing function is NOT in the
        # catalogue: the loop answers it with an interactive "Redefine? (y/n)" question that
        # eats the following input - a dialogue, not a rejection, and outside the property)
        if only:
            opts = [o for o in opts if o in only]
        k = r.choice(opts)
        if k == "assign-const":
            return self.add(Form("bad:" + k, "%s := %d;" % (r.choice(sorted(self.consts)), r.range(1, 99)), good=False))
        if k == "bad-assign":
            nm = r.choice(sorted(self.vars))
            return self.add(Form("bad:" + k, '%s := %s + "a";' % (nm, nm), good=False))
        if k == "missing-arg":
            fn = r.choice(sorted(n for n, (ar, _) in self.funs.items() if ar == 2))
            return self.add(Form("bad:" + k, '%s << "@@x:" << %s(3) << newline;' % (self.d.out, fn), good=False))
        if k == "surplus-arg":
            fn = r.choice(sorted(n for n, (ar, _) in self.funs.items() if ar == 1))
            return self.add(Form("bad:" + k, '%s << "@@x:" << %s(3, 4, 5) << newline;' % (self.d.out, fn), good=False))
        if k == "bad-cons":
            nm = r.choice(sorted(self.lists))
            return self.add(Form("bad:" + k, '%s := cons("x", %s);' % (nm, nm), good=False))
        if k == "undefined":
            return self.add(Form("bad:" + k, '%s << "@@x:" << %s(4) << newline;' % (self.d.out, self.fresh("nosuch")), good=False))
        if k == "bad-return":
            return self.add(Form("bad:" + k, "%s(a: %s): String == a;" % (self.fresh("g"), SI), good=False))
        if k == "dup-param":		# rejected by the syntax checks after parsing
            return self.add(Form("bad:" + k, "%s(x: %s, x: %s): %s == x;" % (self.fresh("g"), SI, SI, SI), good=False))
        if k == "wild":			# control forms outside the construct they belong to
            text = r.choice(["return 3;", "break;", "iterate;", "goto %s;" % self.fresh("lab"), "yield 3;",
                             "free %s: %s;" % (self.fresh("q"), SI)])
            return self.add(Form("bad:" + k, text, good=False))
        if k == "missing-export":	# rejected when the domain is checked against its category
            nm = self.fresh("D")
            return self.add(Form("bad:" + k, "%s: with { mk%s: %s -> %% } == add { Rep ==> %s }" % (nm, nm, SI, SI), good=False))
        if k == "macro-argc":		# rejected during macro expansion
            nm = self.fresh("MQ")
            return self.add(Form("bad:" + k, "{ %s(a, b) ==> a + b; %s: %s := %s(1) }" % (nm, self.fresh("v"), SI, nm), good=False))
        if k == "no-include":		# rejected while lines are read
            return self.add(Form("bad:" + k, '#include "%s.as"' % self.fresh("nosuch"), good=False))
        if k == "no-library":
            return self.add(Form("bad:" + k, '#library %s "%s.ao"' % (self.fresh("LL"), self.fresh("nosuch")), good=False))
        if k == "endif":
            return self.add(Form("bad:" + k, "#endif", good=False))
        if k == "hash-error":
            return self.add(Form("bad:" + k, '#error "%s"' % self.fresh("boo"), good=False))
        if k == "percent":		# % outside any domain
            return self.add(Form("bad:" + k, "%s: %% := 3;" % self.fresh("q"), good=False))
        if k == "enum-lit":
            return self.add(Form("bad:" + k, "%s := 'abc';" % r.choice(sorted(self.vars)), good=False))
        if k == "scan-err":		# rejected by the scanner; the line is lexically complete
            nm = self.fresh("q")
            return self.add(Form("bad:" + k, r.choice(["%s := 2r;", "%s := 3 ` 4;", "%s := 1.0e+;"]) % nm, good=False))
        if k == "bad-import2":
            return self.add(Form("bad:" + k, "import from %s %s;" % (self.fresh("Foo"), self.fresh("Bar")), good=False))
        if k == "bad-lhs":
            return self.add(Form("bad:" + k, "%s :: Integer := 3;" % r.choice(sorted(self.vars)), good=False))
        if k == "multi-lhs":
            nm = r.choice(sorted(self.vars))
            return self.add(Form("bad:" + k, "(%s, %s) := 3;" % (nm, nm), good=False))
        if k == "bad-macro-redef":
            # a rejected step that first re-defines an existing macro: the old definition must hold afterwards
            nm = r.choice(self.macros)
            return self.add(Form("bad:" + k, 'macro %s == %d; %s << (%s + "a") << newline;' % (nm, r.range(500, 900), self.d.out, nm), good=False))
        if k == "bad-with-import":
            # a rejected step that imports a type first: the import must not stay in force
            return self.add(Form("bad:" + k, 'import from Integer; %s << (z0 + "a") << newline;' % self.d.out, good=False))
        if k == "bare-ctor":		# a declaration whose type is a constructor without its arguments
            return self.add(Form("bad:" + k, "%s: %s;" % (self.fresh("q"), r.choice(["Array", "List", "Record"])), good=False))
        if k == "bad-partial":
            # one step holding an acceptable definition of a fresh name and an ill-typed one: the whole
            # step is rejected, the first name must stay undefined (it is defined properly later)
            nm = self.fresh("f")
            self.pending.append(nm)
            return self.add(Form("bad:" + k, '{ %s(a: %s): %s == a + 1; %s: %s == %s(2) + "x" }' % (nm, SI, SI, self.fresh("q"), SI, nm), good=False))
        if k == "bad-syntax":
            # lexically complete (brackets balanced or closing only, statement terminated), but no parse
            text = r.choice(['%s << ) 3;' % self.d.out, 'q%d := 3 +;' % r.range(1, 99), 'if then else;', 'x +-> ;',
                             '%s << "@@x:" << << newline;' % self.d.out])
            return self.add(Form("bad:" + k, text, good=False))
        if k == "bad-overload":
            # an ill-typed definition that would OVERLOAD an existing function (other
            # signature): the existing meaning must keep working afterwards
            fn = r.choice(sorted(self.funs))
            return self.add(Form("bad:" + k, '%s(x: String): %s == x + 1;' % (fn, SI), good=False))
        if k == "bad-domain":
            nm = self.fresh("D")
            self.pending_dom.append(nm)
            text = ("%s: with { mk%s: %s -> %%; val%s: %% -> %s } == add {\n   Rep ==> %s;\n   mk%s(n: %s): %% == per n;\n"
                    "   val%s(x: %%): %s == \"oops\";\n}" % (nm, nm, SI, nm, SI, SI, nm, SI, nm, SI))
            return self.add(Form("bad:" + k, text, good=False))
        if k == "bad-first-type":
            # the rejected form is the first ever to mention a library type; a later good
            # form imports and uses that type
            t = self.newtypes.pop(0)
            self.usetypes = getattr(self, "usetypes", []) + [t]
            return self.add(Form("bad:" + k, "%s(x: %s): %s == x + 1;" % (self.fresh("g"), t, SI), good=False))
        if k == "bad-import":
            return self.add(Form("bad:" + k, "import from %s;" % self.fresh("NoSuchDomain"), good=False))
        if k == "bad-block":
            # a multi-line form whose error is in the middle of the block
            nm = self.fresh("h")
            text = ("%s(a: %s): %s == {\n   local t: %s := a + 1;\n   t := t + \"bad\";\n   t\n}" % (nm, SI, SI, SI))
            return self.add(Form("bad:" + k, text, good=False))
        if k == "bad-redef":
            # an ill-typed second definition with the signature of an existing function:
            # the existing one must keep working
            fn, (ar, f) = r.choice(sorted(self.funs.items()))
            params = ", ".join("%s: %s" % (p, SI) for p in (["a", "b"][:ar] if ar <= 2 else ["a"]))
            if fn.startswith("p"):
                params = "n: %s" % SI
            return self.add(Form("bad:" + k, '%s(%s): %s == "nope";' % (fn, params, SI), good=False))
        nm = self.fresh("f")
        self.pending.append(nm)
        return self.add(Form("bad:" + k, '%s(a: %s): %s == a + "oops";' % (nm, SI, SI), good=False))

    def c_any(self):
        k = self.rng.weighted([("gc", 6), ("blank", 2), ("comment", 2), ("history", 2), ("msglimit", 1), ("timing", 1),
                               ("verbose", 2), ("misc", 2)])
        if k == "verbose":	# the per-step echo switched on / off in the middle of a session
            self.verb = not getattr(self, "verb", self.d.name != "axllib")
            return self.add(Form("ctl:verbose", "#int verbose %s" % ("on" if self.verb else "off"), good=None))
        if k == "misc":
            return self.add(Form("ctl:misc", self.rng.choice(["#int exntrace 1", "#int exntrace 0", "#int help", "#int %s" % self.fresh("nosuchoption"),
                                                                "#int confirm on", "#int timing off   "]), good=None))
        if k == "gc":
            return self.add(Form("ctl:gc", "#int gc", good=None))
        if k == "history":
            self.hist = not getattr(self, "hist", False)
            return self.add(Form("ctl:history", "#int history %s" % ("on" if self.hist else "off"), good=None))
        if k == "msglimit":
            return self.add(Form("ctl:msglimit", "#int msg-limit %d" % self.rng.choice([0, 0, 200, 2000]), good=None))
        if k == "timing":
            return self.add(Form("ctl:timing", "#int timing off", good=None))
        if k == "blank":
            return self.add(Form("ctl:blank", "", good=None))
        return self.add(Form("ctl:comment", "-- %s%s" % (self.fresh("note"), self.rng.choice(["", "", " (unbalanced", " it_'s \"quoted", " } closing"])), good=None))

    def generate(self, nforms, bad_share):
        """bad_share in percent (at most ~30); never two control lines in a row."""
        r = self.rng
        # a small prologue so that every kind of name exists early; z0 gives literals a type
        self.consts["z0"] = 0
        self.add(Form("const", "z0: %s == 0;" % self.d.SI))
        self.g_const()
        self.g_var()
        self.g_fun()
        if self.special == "stale-import":
            SI = self.d.SI
            da, db, tg = self.fresh("DA"), self.fresh("DB"), self.fresh("tag")
            self.twin = (da, db, tg)
            self.add(Form("domain", "%s: with { %s: () -> %s } == add { %s(): %s == 1 }" % (da, tg, SI, tg, SI)))
            self.add(Form("domain", "%s: with { %s: () -> %s } == add { %s(): %s == 2 }" % (db, tg, SI, tg, SI)))
            self.add(Form("import", "import from %s;" % da))
            self.mark += 1
            self.add(Form("out", '%s << "@@%d:" << %s()$%s << newline;' % (self.d.out, self.mark, tg, db), marker="@@%d:" % self.mark, value="@@%d:2" % self.mark))
            # the pattern of the finding, once for certain: the rejected import, then an unqualified use
            self.b_any()
            self.mark += 1
            self.add(Form("out", '%s << "@@%d:" << %s() << newline;' % (self.d.out, self.mark, tg), marker="@@%d:" % self.mark, value="@@%d:1" % self.mark))
        last_ctl = False
        while len(self.forms) < nforms:
            x = r.below(100)
            if x < bad_share:
                self.b_any()
                last_ctl = False
                # bias: a control line (comment, blank, #int gc) right after a rejected form -
                # the step that follows a rejection is where its leftovers are undone
                if r.chance(1, 3):
                    self.c_any()
                    last_ctl = True
                elif r.chance(1, 4):
                    # ... or a form that is rejected before scope binding is reached (no parse,
                    # syntax checks, macro expansion): each such exit must undo the leftovers too
                    self.b_any(only=("bad-syntax", "dup-param", "macro-argc"))
            elif x < bad_share + 8 and not last_ctl:
                self.c_any()
                last_ctl = True
            else:
                last_ctl = False
                if self.pending and r.chance(3, 4):
                    self.g_fun(self.pending.pop(0))
                    continue
                if getattr(self, "usetypes", None) and r.chance(1, 2):
                    t = self.usetypes.pop(0)
                    nm = self.fresh("y")
                    self.add(Form("import", "import from %s;" % t))
                    self.add(Form("var", "%s: %s := 2.5;" % (nm, t)))
                    self.mark += 1
                    m = "@@%d:" % self.mark
                    self.add(Form("out", '%s << "%s" << %s << newline;' % (self.d.out, m, nm), marker=m, value=m + "2.5"))
                    continue
                if self.pending_dom and r.chance(3, 4):
                    self.g_domain(self.pending_dom.pop(0))
                    continue
                k = r.weighted([("out", 30), ("assign", 12), ("var", 8), ("const", 8), ("fun", 10), ("big", 6),
                                ("str", 6), ("list", 8), ("loop", 6), ("domain", 3 if self.d.name != "libaldor" else 0),
                                ("macro", 4), ("ifblock", 5), ("include", 3 if len(self.files) < 3 else 0),
                                ("out_split", 6), ("fun_split", 4), ("bump", 4), ("exprstep", 6), ("out_bump", 5 if self.bumps else 0),
                                ("record", 5), ("array", 5), ("closure", 3), ("gener", 4), ("cond", 3),
                                ("localmacro", 3), ("where", 3), ("macro2", 3), ("library", 2), ("heavy", 4), ("curried", 5), ("tuple", 5), ("longline", 2), ("bool", 3), ("while", 3), ("catdom", 2), ("deep", 3)])
                getattr(self, "g_" + k)()
        # every session ends with an output so the last state is observed
        self.g_out()
        return self.forms


def script_of(forms, dialect, final_newline=True):
    d = Dialect(dialect)
    text = "\n".join(d.header) + "\n" + "".join(f.text for f in forms)
    if not final_newline and text.endswith("\n"):
        text = text[:-1]
    return text


def batch_of(forms, dialect):
    d = Dialect(dialect)
    return "\n".join(d.batch_header) + "\n" + "".join(f.text for f in forms if f.good is True)


def expected_markers(forms):
    return [f.value for f in forms if f.good and f.marker]
