"""C13 -- interactive evaluation equals batch evaluation.

`aldor.sim -Gloop` is run as a long-lived stateful service whose client is the
simulated stdin transport (seeded chunking, EOF at seeded points); the
collector is scheduled by the plan.  Sessions are seeded sequences of good
forms (values known to the generator's own evaluator), rejected forms from an
ill-typed catalogue, and control lines.  Oracles: equivalence with batch
interpretation and with the model, abort atomicity, prefix/ordering, schedule
independence, bounded progress.  DESIGN.md 4/C13.
"""
import json
import os
import re
import sys
import time

import buildlib
import checklib
import vsim
import worlds
import sessgen

PID = "C13"
ALDORLIB = os.path.join(buildlib.LIBREPO, "aldor", "lib", "aldor")


def lib_args(dialect):
    if dialect == "libaldor":
        return ["-I%s/include" % ALDORLIB, "-Y%s/src" % ALDORLIB]
    return []


def run_loop(binfo, scratch, script, dialect, plan_extra=(), chunks=None, eof=None, cpu=40, files=None):
    w = scratch.new()
    os.makedirs(os.path.join(w, "sb"))
    for fn, text in (files or {}).items():
        with open(os.path.join(w, "sb", fn), "wb") as f:
            f.write(text if isinstance(text, bytes) else text.encode())
    with open(os.path.join(w, "script"), "w") as f:
        f.write(script)
    line = "stdin ../script"
    if chunks:
        line += " chunks " + ",".join(str(c) for c in chunks)
    if eof is not None:
        line += " eof %d" % eof
    plan = ["fs root " + os.path.join(w, "sb"), line] + list(plan_extra)
    argv = [binfo["aldor"]] + lib_args(dialect) + buildlib.aldor_args() + ["-Gloop"]
    r = vsim.run_world(binfo, argv, plan, w, cpu=cpu, collect=False)
    vsim.cleanup_world(w)
    return r


def run_batch(binfo, scratch, text, dialect, cpu=40, files=None):
    w = scratch.new()
    sb = os.path.join(w, "sb")
    os.makedirs(sb)
    for fn, t in (files or {}).items():
        with open(os.path.join(sb, fn), "wb") as f:
            f.write(t if isinstance(t, bytes) else t.encode())
    with open(os.path.join(sb, "batch.as"), "w") as f:
        f.write(text)
    argv = [binfo["aldor"]] + lib_args(dialect) + buildlib.aldor_args() + ["-Ginterp", "batch.as"]
    r = vsim.run_world(binfo, argv, ["fs root " + sb], w, cpu=cpu, collect=False)
    vsim.cleanup_world(w)
    return r


MARK = re.compile(r"@@(\d+|x):[^\n]*")


def events(out):
    """Sequence of markers and error blocks (consecutive errors collapsed) in output order."""
    ev = []
    for ln in out.decode("latin-1", "replace").splitlines():
        m = MARK.search(ln)
        if m:
            ev.append(m.group(0).rstrip())
        elif "(Error)" in ln or "(Fatal Error)" in ln:
            if not ev or ev[-1] != "E":
                ev.append("E")
    return ev


def expected_events(forms):
    ev = []
    for f in forms:
        if f.good is True and f.marker:
            ev.append(f.value)
        elif f.good is False:
            if not ev or ev[-1] != "E":
                ev.append("E")
    return ev


def markers_only(ev):
    return [e for e in ev if e != "E"]


LIB_SRC = b'''#include "axllib"
Foo: with { bar: SingleInteger -> SingleInteger; baz: () -> String } == add {
	bar(n: SingleInteger): SingleInteger == n*n+1;
	baz(): String == "lx";
}
'''
LIB_AO = {}	# "lx.ao" -> bytes, filled by main() from a fault-free compile of LIB_SRC


def gen_session(seed, i, tier, special=None):
    rng = vsim.Rng(seed, "c13-session", i, special or "")
    dialect = rng.weighted([("axllib", 7), ("libaldor", 3), ("axllib-verbose", 2)])
    n = rng.loguniform(5, 40)
    bad = rng.choice([0, 0, 10, 20, 30]) if not special else 25
    g = sessgen.Gen(rng.fork("forms"), dialect, special=special)
    forms = g.generate(n, bad)
    aux = dict(g.files)
    if g.uses_lib:
        aux.update(LIB_AO)
    chunks = [rng.loguniform(1, 64) for _ in range(rng.range(1, 40))] if rng.chance(3, 4) else None
    plan = []
    if rng.chance(2, 3):
        shape = rng.below(3)
        if shape == 0:
            k = rng.loguniform(2000, 200000)
            plan.append("gc per %d %d" % (k, rng.below(k)))
        elif shape == 1:
            plan.append("gc hash %d %d" % (rng.range(10, 16), rng.below(1 << 30)))
        else:
            for _ in range(rng.range(1, 3)):
                plan.append("gc win %d %d" % (rng.range(100000, 900000), rng.loguniform(1, 40)))
        plan.append("gc cap %d" % rng.choice([30, 100, 250]))
    if rng.chance(1, 3):
        plan.append("wash on %s %s" % rng.choice([("AA", "DD"), ("55", "22"), ("00", "FF")]))
    if rng.chance(1, 2):
        plan.append("heapbase " + rng.choice(["200000000000", "31000000b000", "2aaa00007000"]))
    if rng.chance(1, 6):
        plan.append("mmaps %d" % rng.choice([26, 40, 200]))
    final_nl = not rng.chance(1, 5)
    cut = rng.range(1, len(forms)) if rng.chance(1, 2) else None
    midcut = (rng.below(1 << 30), rng.below(1 << 30)) if rng.chance(1, 3) else None
    return {"i": i, "dialect": dialect, "special": special, "forms": forms, "chunks": chunks, "plan": plan, "final_nl": final_nl, "cut": cut, "midcut": midcut, "files": aux}


def judge_session(binfo, scratch, s):
    """Runs the worlds of one session and returns (violations, info)."""
    forms, dialect = s["forms"], s["dialect"]
    viol = []
    info = {"worlds": 0, "forced": 0, "chunks": 0, "rejected": sum(1 for f in forms if f.good is False)}
    model = sessgen.expected_markers(forms)
    script = sessgen.script_of(forms, dialect, s["final_nl"])
    good_only = [f for f in forms if f.good is not False]

    def acct(r):
        info["worlds"] += 1
        z = vsim.parse_log(r.log)["z"]
        info["forced"] += z.get("forcedgc", 0)
        info["chunks"] += z.get("stdin", 0)

    def bad_end(r, what):
        fc = worlds.fault_class(r)
        if fc:
            viol.append((fc, "%s: %s" % (what, (r.out + r.err)[-200:].decode("latin-1", "replace").replace("\n", " | "))))
            return True
        if r.rc != 0:
            viol.append(("abnormal-end", "%s: exit status %r" % (what, r.rc)))
            return True
        return False

    # A: the full session under the seeded delivery and collection schedule
    fl = s.get("files") or {}
    a = run_loop(binfo, scratch, script, dialect, s["plan"], s["chunks"], files=fl)
    acct(a)
    if bad_end(a, "session"):
        return viol, info
    eva = events(a.out)
    # bounded progress: whole input consumed
    if ("I eof %d" % len(script.encode())) not in a.log:
        viol.append(("input-not-consumed", "the session ended before reading its whole input"))
    # 1. equivalence with the model and with batch interpretation
    if markers_only(eva) != model:
        viol.append(("markers-differ-from-model", "session printed %s, model says %s" % (markers_only(eva)[:12], model[:12])))
    b = run_batch(binfo, scratch, sessgen.batch_of(forms, dialect), dialect, files=fl)
    acct(b)
    if bad_end(b, "batch"):
        return viol, info
    evb = markers_only(events(b.out))
    if evb != markers_only(eva):
        viol.append(("loop-differs-from-batch", "loop printed %s, batch printed %s" % (markers_only(eva)[:12], evb[:12])))
    # 2. abort atomicity: ordering of errors and markers, and the same session without rejected forms
    if eva != expected_events(forms):
        viol.append(("error-ordering", "events %s, expected %s" % (eva[:16], expected_events(forms)[:16])))
    if info["rejected"]:
        c = run_loop(binfo, scratch, sessgen.script_of(good_only, dialect, s["final_nl"]), dialect, s["plan"], s["chunks"], files=fl)
        acct(c)
        if not bad_end(c, "session without rejected forms") and markers_only(events(c.out)) != markers_only(eva):
            viol.append(("rejected-form-left-a-trace", "with rejected forms %s, without %s" % (markers_only(eva)[:12], markers_only(events(c.out))[:12])))
    # 4. schedule independence: canonical delivery, no forced collection
    if s["chunks"] or s["plan"]:
        d = run_loop(binfo, scratch, script, dialect, (), None, files=fl)
        acct(d)
        if not bad_end(d, "canonical session") and events(d.out) != eva:
            viol.append(("schedule-dependent", "seeded schedule %s, canonical %s" % (eva[:12], events(d.out)[:12])))
    # 3. prefix: input ends after form k
    if s["cut"]:
        k = s["cut"]
        pre = sessgen.script_of(forms[:k], dialect, True)
        e = run_loop(binfo, scratch, script, dialect, s["plan"], s["chunks"], eof=len(pre.encode()), files=fl)
        acct(e)
        if not bad_end(e, "session cut after form %d" % k):
            want = expected_events(forms[:k])
            if events(e.out) != want:
                viol.append(("prefix", "input ended after form %d: events %s, expected %s" % (k, events(e.out)[:12], want[:12])))
    # 3b. the input ends in the MIDDLE of a form (a seeded byte inside form k+1): everything before it
    # is evaluated as usual, the torn form may give an error or - if the cut fell behind its last
    # token - its own value, nothing else; the loop ends normally
    if s.get("midcut") is not None and len(forms) >= 2:
        k = s["midcut"][0] % (len(forms) - 1) + 1		# forms[:k] are complete, forms[k] is torn
        pre = sessgen.script_of(forms[:k], dialect, True)
        tail = forms[k].text
        cutpos = len(pre.encode()) + 1 + s["midcut"][1] % max(1, len(tail.encode()) - 1)
        e = run_loop(binfo, scratch, script, dialect, s["plan"], s["chunks"], eof=cutpos, files=fl)
        acct(e)
        if not bad_end(e, "input torn inside form %d" % (k + 1)):
            want = expected_events(forms[:k])
            got = events(e.out)
            extra = got[len(want):] if got[:len(want)] == want else None
            if want and want[-1] == "E" and got[:len(want) - 1] == want[:-1] and extra is None:
                extra = got[len(want) - 1:]
            # (a torn output statement may still be a complete, shorter statement: its marker with part of
            # its value, without the newline - whatever follows on that line belongs to it)
            mk = forms[k].marker if forms[k].good and forms[k].marker else None
            if extra is None or any(not (x == "E" or (mk and x.startswith(mk))) for x in extra) or len(extra) > 2:
                viol.append(("torn-form", "input torn inside form %d: events %s, expected %s plus at most an error or the torn form's own value" % (k + 1, got[:14], want[:14])))
    return viol, info


def main(argv):
    tier, replay, rest = checklib.parse_args(argv)
    seed = vsim.seed_from_env()
    t0 = time.time()
    binfo = buildlib.build()
    out = checklib.Outcome(PID)

    with vsim.Scratch("c13") as scratch:
        if replay:
            rp = json.load(open(replay))
            forms = [sessgen.Form(f["kind"], f["text"], f["good"], f["marker"], f["value"]) for f in rp["forms"]]
            s = dict(rp["session"], forms=forms)
            s["files"] = dict((k, v.encode("latin-1") if k.endswith(".ao") else v) for k, v in (s.get("files") or {}).items())
            v, info = judge_session(binfo, scratch, s)
            vsim.say("replay: %s" % v)
            if v:
                vsim.say("VIOLATION property=%s replay=%s" % (PID, replay))
                return 1
            return 0

        if not replay:
            w0 = scratch.new()
            r0 = worlds.compile_world(binfo, w0, {"lx.as": LIB_SRC}, ["-Fao"], ["lx.as"], cpu=60)
            vsim.cleanup_world(w0)
            if r0.rc == 0 and "lx.ao" in r0.files:
                LIB_AO["lx.ao"] = r0.files["lx.ao"]
        nsess = int(os.environ.get("VERIF_C13_SESSIONS", 0)) or (500 if tier == "quick" else 8000)
        sessions = [gen_session(seed, i, tier) for i in range(nsess)]
        # dedicated sessions for a known finding (an import inside a rejected step survives when the
        # type was used before): kept apart, with a key of their own, so that they mask nothing else
        sessions += [gen_session(seed, nsess + j, tier, special="stale-import") for j in range(6 if tier == "quick" else 60)]
        # regression corpus
        import glob
        for f in sorted(glob.glob(os.path.join(vsim.VERIF, "findings", "C13-*", "*.json"))):
            rp = json.load(open(f))
            forms = [sessgen.Form(x["kind"], x["text"], x["good"], x["marker"], x["value"]) for x in rp["forms"]]
            sessions.append(dict(rp["session"], forms=forms, i=len(sessions)))
        budget = checklib.Budget(420 if tier == "quick" else 2700)
        results = []
        B = 128
        for b0 in range(0, len(sessions), B):
            if budget.over():
                break
            results += vsim.pmap(lambda s: judge_session(binfo, scratch, s), sessions[b0:b0 + B])
        done = len(results)

        by_key = {}
        for i, (v, info) in enumerate(results):
            for cls, detail in v:
                tag = (sessions[i].get("special") + ":") if sessions[i].get("special") else ""
                by_key.setdefault("%s%s:%s" % (tag, sessions[i]["dialect"], cls), []).append((i, detail))
        for key in sorted(by_key):
            text = out.classify(key)
            ids = by_key[key]
            if text is not None:
                out.known.append({"key": key, "text": text})
                continue
            ids.sort(key=lambda t: len(sessions[t[0]]["forms"]))
            i, detail = ids[0]
            s = sessions[i]
            cls = key.rsplit(":", 1)[1]

            t_min = time.time()

            def fails(fl):
                # a wall-clock cap on shrinking: sessions that end in the loop's `Redefine?' dialogue
                # spin until the CPU cap, five worlds per trial
                if time.time() - t_min > 120:
                    return False
                s2 = dict(s, forms=renumber(fl), cut=None)
                v2, _ = judge_session(binfo, scratch, s2)
                return any(c == cls for c, _ in v2)

            def renumber(fl):
                return fl
            v_again, _ = judge_session(binfo, scratch, s)
            if not any(c == cls for c, _ in v_again):
                out.nondet.append("session %d: violation %s did not reproduce" % (i, key))
                continue
            forms = s["forms"]
            if cls not in ("prefix", "hang"):
                # forms refer to earlier definitions, so only try dropping suffixes and rejected/control forms
                best = forms
                for cutn in range(len(forms) - 1, 0, -1):
                    if fails(forms[:cutn]):
                        best = forms[:cutn]
                    else:
                        break
                for j in range(len(best) - 1, -1, -1):
                    if best[j].good is not True and len(best) > 1:
                        cand = best[:j] + best[j + 1:]
                        if fails(cand):
                            best = cand
                forms = best
            s2 = dict(s, forms=forms) if cls != "prefix" else s
            # simplify the schedule
            for simpler in (({"chunks": None}, {"plan": []}) if cls != "hang" else ()):
                s3 = dict(s2, **simpler)
                v3, _ = judge_session(binfo, scratch, s3)
                if any(c == cls for c, _ in v3):
                    s2 = s3
            rp = vsim.write_replay(PID, "seed%d-s%d" % (seed, i), {
                "property": PID, "seed": seed, "key": key, "detail": detail, "source_key": binfo["key"],
                "session": dict(dict((k, s2.get(k)) for k in ("dialect", "special", "chunks", "plan", "final_nl", "cut", "midcut")),
                                files=dict((k, v.decode("latin-1") if isinstance(v, bytes) else v) for k, v in (s2.get("files") or {}).items())),
                "forms": [f.to_json() for f in s2["forms"]],
                "script": sessgen.script_of(s2["forms"], s2["dialect"], s2["final_nl"]),
                "other_failing_sessions": len(ids) - 1})
            out.violations.append({"key": key, "cls": cls, "detail": "session %d (%d forms -> %d): %s" % (i, len(s["forms"]), len(s2["forms"]), detail), "replay": rp})

        wall = time.time() - t0
        worlds_n = sum(info["worlds"] for _, info in results)
        kinds = {}
        for s in sessions[:done]:
            for f in s["forms"]:
                kinds[f.kind] = kinds.get(f.kind, 0) + 1
        cov = {
            "evaluations": done,
            "distinct_nontrivial": sum(1 for s in sessions[:done] if any(f.good is False for f in s["forms"]) or s["chunks"] or s["plan"]),
            "rule": "sessions generated from VERIF_SEED (dialect, 5-40 forms, share of rejected forms 0/10/20/30 %, control lines, chunked delivery 1..64 bytes, forced collection plan, EOF after a seeded form, with/without final newline); each session is run as: full session, batch file of the accepted forms, session without the rejected forms, canonical schedule, cut after form k; non-trivial = has rejected forms or a non-canonical schedule",
            "samples": [{"dialect": s["dialect"], "chunks": (s["chunks"] or [])[:8], "plan": s["plan"], "cut": s["cut"],
                         "script": sessgen.script_of(s["forms"], s["dialect"])[:1500]} for s in sessions[:2]],
            "sessions_planned": len(sessions), "sessions_run": done, "worlds_run": worlds_n,
            "dialects": dict((d, sum(1 for s in sessions[:done] if s["dialect"] == d)) for d in ("axllib", "libaldor", "axllib-verbose")),
            "form_kinds": kinds,
            "rejected_forms_entered": sum(info["rejected"] for _, info in results),
            "forced_collections_executed": sum(info["forced"] for _, info in results),
            "stdin_chunks_delivered": sum(info["chunks"] for _, info in results),
            "sessions_with_cut": sum(1 for s in sessions[:done] if s["cut"]),
            "sessions_without_final_newline": sum(1 for s in sessions[:done] if not s["final_nl"]),
            "violating_sessions": sum(1 for v, _ in results if v), "violation_keys": dict((k, len(v)) for k, v in by_key.items()),
            "known_findings_matched": [k["key"] for k in out.known],
            "runs_per_hour": int(worlds_n / max(wall, 1e-3) * 3600),
            "components": vsim.components(), "source_key": binfo["key"],
        }
        vsim.write_evidence(PID, tier, seed, "exploration", cov, wall, violations=len(out.violations),
                            assumptions=["only marker lines and (Error) diagnostics are inspected; prompts, timing lines and GC totals are clock dependent and ignored",
                                         "the generator's evaluator is the reference model for values; functions close over constants and parameters only"])
        vsim.say("C13 %s: %d sessions, %d worlds, %d violating sessions (%d keys), %d known keys, %.1fs" %
                 (tier, done, worlds_n, cov["violating_sessions"], len(by_key), len(out.known), wall))
    return out.report()


if __name__ == "__main__":
    sys.exit(main(sys.argv[1:]))
