"""C10 -- the storage manager never hands out or reclaims live memory.

Seeded operation histories (swarm style) are executed by the in-process
harness `stosim` against the real store.c (compiler and FOAM_RTS variants)
with the simulated OS memory supply; the harness checks every step against a
reference heap model.  See DESIGN.md section 4/C10.
"""
import os
import re
import sys
import time

import buildlib
import checklib
import vsim

PID = "C10"

HEAP_BASES = ["200000000000", "31000000b000", "100000000000", "2aaa00007000", "7000000ff000"]
FILLS = [("AA", "DD"), ("55", "22"), ("00", "FF"), ("FF", "00")]

FIX = sorted(set(max(1, 8 * k + d) for k in range(1, 33) for d in (-1, 0, 1)))
BND = list(range(225, 290))
CLUSTER = list(range(700, 1301, 4))


def mixed_sizes(rng, n):
    out = []
    for _ in range(n):
        m = rng.loguniform(1, 64)
        out.append(max(257, 256 * m - 32 + rng.range(-1, 1)))
    return out


def multi_sizes(rng, n):
    out = []
    for _ in range(n):
        out.append(rng.loguniform(4096, 1 << 20) + rng.range(-1, 1))
    return out


def gen_alphabet(rng):
    # wide alphabets: many distinct mixed sizes at once, so that the free tree of the
    # mixed-size pieces grows beyond one node (its B-tree has 16..31 keys per node)
    if rng.chance(1, 6):
        n = rng.loguniform(40, 300)
        top = rng.choice([60, 120, 250])
        return sorted(set(max(257, 256 * rng.range(1, top) - 32 + rng.choice([0, 0, 0, -1, 1, -17, 100])) for _ in range(n)))
    fams = [("fix", 5), ("bnd", 2), ("mixed", 4), ("multi", 2), ("cluster", 3), ("tiny", 1)]
    on = [f for f in fams if rng.chance(2, 3)] or [rng.choice(fams)]
    n = rng.range(2, 8)
    sizes = []
    for _ in range(n):
        f = rng.weighted(on)
        if f == "fix":
            sizes.append(rng.choice(FIX))
        elif f == "bnd":
            sizes.append(rng.choice(BND))
        elif f == "mixed":
            sizes += mixed_sizes(rng, 1)
        elif f == "multi":
            sizes += multi_sizes(rng, 1)
        elif f == "cluster":
            sizes.append(rng.choice(CLUSTER))
        else:
            sizes.append(rng.range(1, 16))
    return sizes


OPS = ["a", "f", "r", "c", "d", "l", "g", "t", "u", "x", "o", "v", "p"]
BASEW = {"a": 40, "f": 18, "r": 8, "c": 3, "d": 10, "l": 5, "g": 3, "t": 2, "u": 4, "x": 1, "o": 1, "v": 2, "p": 1}
OPTIONAL = {"r": (3, 4), "c": (1, 2), "d": (3, 4), "l": (1, 2), "g": (3, 4), "t": (1, 2), "u": (3, 4),
            "x": (1, 4), "o": (1, 5), "v": (1, 3), "p": (1, 4)}


def gen_length(rng, tier):
    r = rng.below(100)
    if r < 88:
        return rng.loguniform(1, 300)
    if r < 98:
        return rng.loguniform(300, 3000)
    return rng.loguniform(3000, 20000 if tier == "quick" else 100000)


def gen_op(rng, op, sizes, kinds, st):
    """One history line.  st: generator-side state (only a live-count estimate)."""
    if op == "a":
        code = rng.choice([0, 0, 1, 2, 5, 17, 28, 30, 31]) if rng.chance(1, 3) else 0
        k = rng.weighted(kinds)
        st["live"] += 0 if k == "d" else 1
        return "%s %d %d %s" % ("z" if rng.chance(1, 12) else "a", rng.choice(sizes), code, k)
    if op == "f":
        st["live"] = max(0, st["live"] - 1)
        return "%s %d" % ("F" if rng.chance(1, 8) else "f", rng.below(1 << 16))
    if op == "r":
        return "r %d %d" % (rng.below(1 << 16), rng.choice(sizes) if rng.chance(3, 4) else rng.choice(FIX + BND))
    if op == "c":
        return "c %d %d" % (rng.below(1 << 16), rng.choice([0, 1, 7, 30, 31]))
    if op == "d":
        st["live"] = max(0, st["live"] - 1)
        return "d %d" % rng.below(1 << 16)
    if op == "l":
        return "l %d %d" % (rng.below(1 << 16), rng.below(1 << 16))
    if op == "x":
        return "x %d" % (rng.loguniform(1, 50) if rng.chance(9, 10) else 100000)
    if op == "o":
        if rng.chance(1, 3):	# ... by an arbitrary number of bytes: the allocator's next grant starts unaligned
            return "O %d" % rng.choice([1, 7, 8, 13, 100, 4095, 4097, rng.range(1, 20000)])
        return "o %d" % rng.loguniform(1, 40)
    if op == "v":
        # (level 0 = never is not generated: it is a one-way latch after which the allocator keeps no
        # per-quantum tags - stoCode answers 0, and the unchanged tree's own audit asserts; the
        # property's request alphabet is allocate / free / resize / recode / collect)
        return "v %d" % rng.range(1, 2)
    if op == "p":
        st["p"] = st.get("p", 0) + 1
        if st["p"] > 3:
            return gen_op(rng, "a", sizes, kinds, st)
        return "p %d %s %d" % (rng.choice([s for s in sizes if 64 <= s <= 2048] or [200]), rng.choice(["d", "d", "e"]), rng.range(0, 3))
    return op


def gen_history(rng, tier):
    """Returns (plan_lines, history_lines, meta)."""
    sizes = gen_alphabet(rng)
    n = gen_length(rng, tier)
    if n > 3000:
        sizes = [s if s <= 65536 else s % 65536 + 1 for s in sizes]
    w = dict(BASEW)
    for op, (num, den) in OPTIONAL.items():
        if not rng.chance(num, den):
            w[op] = 0
        else:
            w[op] = max(1, w[op] * rng.range(1, 4) // 2)
    # g: the root word lies in foreign memory (falls back to an exact root while there is none)
    kinds = [("e", rng.range(1, 6)), ("i", rng.range(0, 3)), ("d", rng.range(0, 4)), ("g", rng.range(0, 3) if w.get("o") else 0)]
    kinds = [k for k in kinds if k[1] > 0] or [("e", 1)]
    weights = [(op, w[op]) for op in OPS if w[op] > 0]
    lines = ["cfg seed %d" % rng.below(1 << 30)]
    if n > 300:
        lines.append("cfg check %d" % max(1, n // 100))
    if rng.chance(1, 4):
        lines.append("w 0")
    shape = rng.below(10)
    st = {"live": 0}
    if shape < 4:
        # phased history: set-up at one collection level with some operation
        # kinds held back (their FIRST occurrence is delayed), an optional fill
        # to the brink of heap growth, a switch of level, a burst of the held
        # back kinds, then ordinary churn.  First-time events (first free, first
        # entry of a size into the free tree, first resize) then happen in a
        # heap that has no page to spare.
        l1 = 1 if rng.chance(2, 3) else 2
        l2 = 2 if rng.chance(2, 3) else 1
        held = [o for o in ("f", "r", "d", "g", "l") if rng.chance(1, 2)]
        n1 = rng.loguniform(1, max(1, min(n, 60)))
        lines.append("v %d" % l1)
        ph1 = [(o, ww) for o, ww in weights if o in ("a", "d", "f", "l", "r", "g") and o not in held] or [("a", 1)]
        if not any(o == "a" for o, _ in ph1):
            ph1.append(("a", 20))
        for _ in range(n1):
            lines.append(gen_op(rng, rng.weighted(ph1), sizes, kinds, st))
        if rng.chance(3, 4):
            if rng.chance(1, 2):
                lines.append("p %d %s %d" % (rng.choice([64, 100, 128, 200, 248, 256]), rng.choice(["d", "d", "e"]), rng.range(0, 3)))
                st["p"] = st.get("p", 0) + 1
            else:
                lines.append(gen_op(rng, "p", sizes, kinds, st))
        lines.append("v %d" % l2)
        burst = [(o, 3) for o in held if o != "l"] + [("f", 3), ("a", 1)]
        nb = rng.loguniform(1, 8)
        for _ in range(nb):
            lines.append(gen_op(rng, rng.weighted(burst), sizes, kinds, st))
        for _ in range(max(0, n - n1 - nb)):
            lines.append(gen_op(rng, rng.weighted(weights), sizes, kinds, st))
    else:
        refusing = 0
        for i in range(n):
            op = rng.weighted(weights)
            # fault-rate discipline: refusals come as short episodes separated by progress
            if op == "x":
                if refusing > 0:
                    op = "a"
                else:
                    refusing = rng.range(50, 400)
            refusing = max(0, refusing - 1)
            lines.append(gen_op(rng, op, sizes, kinds, st))
    # one history in 30: a chain deeper than the marker's recursion bound, linked through first words,
    # built at a seeded point of the history and followed by a collection sooner or later
    if rng.chance(1, 30):
        at = rng.range(1, len(lines))
        lines.insert(at, "k %d %d" % (rng.range(4100, 7000) if rng.chance(2, 3) else rng.range(8200, 13000), rng.choice([16, 24, 32, 48, 64, 200, 300])))
        lines.insert(min(len(lines), at + 1 + rng.loguniform(1, 30)), "g")
    # collections, audits and full checks cost O(heap): bound their number in long histories
    if n > 1500:
        quota = {"g": 150, "u": 150}
        for j, l in enumerate(lines):
            if l in quota:
                if quota[l] <= 0:
                    lines[j] = gen_op(rng, "a", sizes, kinds, st)
                else:
                    quota[l] -= 1
    plan = ["heapbase " + rng.choice(HEAP_BASES), "sbrk cap %d" % (256 << 20)]
    fl = rng.choice(FILLS)
    plan.append("fill %s %s" % fl)
    forced = False
    if rng.chance(1, 5):
        forced = True
        k = rng.loguniform(1, 200)
        plan.append("gc per %d %d" % (k, rng.below(k)))
        plan.append("gc cap %d" % (400 if n < 3000 else 2000))
        if rng.chance(1, 2):
            plan.append("audit every %d" % rng.range(1, 5))
            if rng.chance(1, 2):
                plan.append("audit before")
    kindset = set(l.split()[0] for l in lines)
    meta = {"n": n, "sizes": sizes, "faulty": bool(kindset & {"x", "o"}), "forced": forced,
            "ops": sorted(kindset - {"cfg"})}
    return plan, lines, meta


# ---- exhaustive short histories over a small alphabet (thorough tier) ------
SMALL_OPS = ["a 24 0 e", "a 24 0 d", "a 900 0 e", "a 900 0 d", "a 5000 0 e", "f 0", "f 1", "r 0 900", "r 0 24",
             "g", "l 0 1"]


def enum_short(maxlen):
    out = []

    def rec(prefix):
        if prefix:
            out.append(list(prefix))
        if len(prefix) >= maxlen:
            return
        for o in SMALL_OPS:
            # prune: operations on an empty heap are no-ops
            if o[0] in "frl" and not any(p.startswith("a") and p.endswith("e") for p in prefix):
                continue
            rec(prefix + [o])
    rec([])
    return out


# ---- running one history -----------------------------------------------------
VERDICT = re.compile(r"^(OK|VIOLATION|END)\b(.*)$", re.M)
ASSERT = re.compile(r'Assertion failed, file "[^"]*" line \d+: (.*)')


def run_history(binfo, scratch, variant, plan, hist, cpu=150, name=None, envpad=0):
    sb = scratch.new(name)
    os.makedirs(sb, exist_ok=True)
    hp = os.path.join(sb, "history")
    with open(hp, "w") as f:
        f.write("\n".join(hist) + "\n")
    exe = binfo["stosim"] if variant == "comp" else binfo["stosim_rts"]
    r = vsim.run_world(binfo, [exe, "../history"], plan, sb, cpu=cpu, collect=False, envpad=envpad)
    out = r.out.decode("latin-1", "replace")
    err = r.err.decode("latin-1", "replace")
    m = None
    for m in VERDICT.finditer(out):
        pass
    res = {"rc": r.rc, "wall": r.wall, "log_hash": r.log_hash(), "log": vsim.parse_log(r.log)}
    if r.timeout:
        res.update(kind="VIOLATION", cls="hang", detail="cpu cap exceeded")
    elif m is None:
        res.update(kind="VIOLATION", cls="fault" if (r.rc or 0) < 0 else "no-verdict",
                   detail=("rc=%r " % r.rc) + err[-300:].replace("\n", " | "))
    else:
        res["kind"] = m.group(1)
        res["detail"] = m.group(2).strip()
        if m.group(1) == "VIOLATION":
            mm = re.search(r"class=(\S+)", m.group(2))
            res["cls"] = mm.group(1) if mm else "unknown"
            a = ASSERT.search(err)
            if a:
                res["detail"] += " assertion: " + a.group(1).strip()
                res["assertion"] = re.sub(r"\s+", "", a.group(1))
        elif m.group(1) == "OK":
            res["stats"] = dict((k, int(v)) for k, v in re.findall(r"(\w+)=(\d+)", m.group(2)))
    vsim.cleanup_world(sb)
    return res


# ---- program-driven histories ----------------------------------------------------------
# The request sequence of a real program (compiled and linked with the rebuilt runtime, or
# interpreted inside the compiler) is a legal history too, with the size and lifetime patterns
# that random histories lack.  The simulator audits the allocator at seeded allocation indices
# and around forced collections; the oracle here is the audit alone (what the program prints
# is C09's business).
_EXE = {}


def program_world(binfo, scratch, name, text, q, route, plan):
    """Returns (violation class or None, detail)."""
    from checks import c09
    prog = {"name": name, "text": text, "q": q}
    if route == "exe":
        key = (name, q)
        if key not in _EXE:
            _EXE[key] = c09.build_exe(binfo, scratch, name, text, q, "-O1")
        d, msg = _EXE[key]
        if not d:
            return None, "not built: " + msg[-100:]
        prog["exe_dir"] = d
    r = c09.run_prog(binfo, scratch, prog, route, plan)
    if r.timeout:
        return None, "over the CPU budget (inconclusive)"
    a = ASSERT.search(r.err.decode("latin-1", "replace"))
    if a and "store.c" in r.err.decode("latin-1", "replace"):
        return "audit", "assertion: " + a.group(1).strip()
    return None, "audits=%d" % vsim.parse_log(r.log)["z"].get("audits", 0)


def program_cases(seed, tier):
    import progen
    out = []
    nprog = 4 if tier == "quick" else 24
    nplan = 5 if tier == "quick" else 12
    for g in range(nprog):
        rng = vsim.Rng(seed, "c10-prog", g)
        text = progen.gen_program(rng.fork("src"), size="small" if g % 2 else "heavy",
                                  force=(("sizes",) if g % 4 == 0 else (("frag",) if g % 4 == 2 else ())), finale=True).encode("latin-1")
        q = rng.choice(["-Q1", "-Q2", "-Q3"])
        for k in range(nplan):
            route = "exe" if k % 3 else "interp"
            plan = ["heapbase " + rng.choice(HEAP_BASES), "fill %s %s" % rng.choice(FILLS)]
            ak = rng.loguniform(1, 400) if route == "exe" else rng.loguniform(200, 20000)
            plan.append("audit alloc %d %d %d" % (ak, rng.below(ak), 3000 if route == "exe" else 300))
            if rng.chance(2, 3):
                gk = rng.loguniform(20, 5000) if route == "exe" else rng.loguniform(5000, 200000)
                plan += ["gc per %d %d" % (gk, rng.below(gk)), "gc cap %d" % (2000 if route == "exe" else 150),
                         "audit every %d" % rng.choice([1, 1, 3]), "audit before"]
            out.append({"program": "p%02d.as" % g, "source": text, "q": q, "route": route, "plan": plan})
    return out


def violation_key(res, variant):
    if res.get("cls") == "audit" and res.get("assertion"):
        return "audit:" + res["assertion"]
    return res.get("cls", "unknown")


def minimise(binfo, scratch, variant, plan, hist, key, step=None, wall_cap=150):
    t0 = time.time()
    cfg = [l for l in hist if l.startswith("cfg") and not l.startswith("cfg check")]
    ops = [l for l in hist if not l.startswith("cfg")]

    def fails_with(p, o):
        if time.time() - t0 > wall_cap:
            return False		# out of minimisation budget: keep what we have
        r = run_history(binfo, scratch, variant, p, cfg + o)
        return r["kind"] == "VIOLATION" and violation_key(r, variant) == key

    # 0. nothing after the step that failed matters
    if step and step < len(ops) and fails_with(plan, ops[:step]):
        ops = ops[:step]
    # 1. plan events first (forced collections, audits, fill)
    keep_plan = [l for l in plan if l.startswith(("heapbase", "sbrk cap"))]
    opt_plan = [l for l in plan if l not in keep_plan]
    if opt_plan and fails_with(keep_plan, ops):
        opt_plan = []
    elif len(opt_plan) > 1:
        opt_plan, _ = checklib.ddmin(opt_plan, lambda sub: fails_with(keep_plan + sub, ops), 30)
    p2 = keep_plan + opt_plan
    # 2. operations (candidates of one granularity run in parallel)
    ops2, runs = checklib.ddmin_par(ops, lambda sub: fails_with(p2, sub))
    return p2, cfg + ops2, runs


def main(argv):
    tier, replay, rest = checklib.parse_args(argv)
    seed = vsim.seed_from_env()
    t0 = time.time()
    binfo = buildlib.build()
    out = checklib.Outcome(PID)

    with vsim.Scratch("c10") as scratch:
        if replay:
            rp = __import__("json").load(open(replay))
            if rp.get("program"):
                v = program_world(binfo, scratch, rp["program"], rp["source"].encode("latin-1"), rp["q"], rp["route"], rp["plan"])
                vsim.say("replay: program-driven history: %s" % (v,))
                if v[0]:
                    vsim.say("VIOLATION property=%s replay=%s" % (PID, replay))
                    return 1
                return 0
            r = run_history(binfo, scratch, rp["variant"], rp["plan"], rp["history"])
            vsim.say("replay: kind=%s class=%s %s" % (r["kind"], r.get("cls"), r.get("detail", "")))
            if r["kind"] == "VIOLATION":
                vsim.say("VIOLATION property=%s replay=%s" % (PID, replay))
                return 1
            return 0

        n_hist = 4000 if tier == "quick" else 120000
        wall_cap = 150 if tier == "quick" else 1500
        cases = []
        for i in range(n_hist):
            rng = vsim.Rng(seed, "c10", i)
            plan, hist, meta = gen_history(rng, tier)
            cases.append({"i": i, "variant": "comp" if i % 2 == 0 else "rts", "plan": plan, "hist": hist, "meta": meta})
        # boundary sweep: every request size up to just past the fixed/mixed boundary, and
        # every mixed quantum boundary up to 16 KB, as the FIRST allocation of its class
        # in a pristine allocator (exhaustive over that small family)
        sweep = list(range(1, 300)) + [256 * m - 32 + d for m in range(2, 65) for d in (-1, 0, 1)]
        for j, sz in enumerate(sweep):
            h = ["cfg seed %d" % sz, "a %d 0 e" % sz, "a %d 3 i" % sz, "r 0 %d" % (sz + 1), "a %d 0 d" % sz, "g",
                 "f 0", "a %d 0 e" % sz, "r 1 %d" % max(1, sz - 1), "u"]
            cases.append({"i": len(cases), "variant": "comp" if j % 2 == 0 else "rts",
                          "plan": ["heapbase 200000000000", "sbrk cap %d" % (256 << 20)], "hist": h,
                          "meta": {"n": len(h), "sweep": sz, "faulty": False, "forced": False, "ops": []}})
        # very large blocks: sections of 2^15 pages and more (the section header counts its pages)
        for j, mb in enumerate((127, 128, 129, 200, 300)):
            sz = mb << 20
            h = ["cfg seed %d" % mb, "cfg livecap 1800", "a %d 0 e" % sz, "u", "a 100 0 e", "f 0", "u", "g", "u",
                 "a %d 0 e" % (sz + 4096), "g", "f 1", "u", "a 900 0 e", "g", "u"]
            cases.append({"i": len(cases), "variant": "comp" if j % 2 == 0 else "rts",
                          "plan": ["heapbase 200000000000", "sbrk cap %d" % (2 << 30)], "hist": h,
                          "meta": {"n": len(h), "huge": mb, "faulty": False, "forced": False, "ops": []}})
        # regression corpus: minimised histories of defects found earlier (fixed in /repo)
        import glob, json as _json
        for j, f in enumerate(sorted(glob.glob(os.path.join(vsim.VERIF, "findings", "C10-*", "*.json")))):
            rp = _json.load(open(f))
            for var in ("comp", "rts"):
                cases.append({"i": len(cases), "variant": var, "plan": rp["plan"], "hist": rp["history"],
                              "meta": {"n": len(rp["history"]), "regression": os.path.basename(f), "faulty": False,
                                       "forced": False, "ops": []}})
        if tier == "thorough":
            for j, h in enumerate(enum_short(4)):
                cases.append({"i": len(cases), "variant": "comp" if j % 2 == 0 else "rts",
                              "plan": ["heapbase 200000000000", "sbrk cap %d" % (256 << 20)],
                              "hist": ["cfg seed 1"] + h + ["u"], "meta": {"n": len(h), "enum": True, "faulty": False,
                                                                              "forced": False, "ops": []}})
        # the enumerated families (boundary sweep, very large blocks, regression corpus, short histories)
        # run first: a wall-clock budget must cut the random histories, never the exhaustive parts
        cases = cases[n_hist:] + cases[:n_hist]
        for j, c in enumerate(cases):
            c["i"] = j
        budget = checklib.Budget(wall_cap)
        results = []
        BATCH = 512
        for b0 in range(0, len(cases), BATCH):
            if budget.over():
                break
            batch = cases[b0:b0 + BATCH]
            results += vsim.pmap(lambda c: run_history(binfo, scratch, c["variant"], c["plan"], c["hist"]), batch)
        done = len(results)

        # ---- determinism sample: re-execute 3 % and compare log hashes -------
        redo_ix = [i for i in range(done) if vsim.Rng(seed, "redo", i).chance(3, 100)][:200]
        redo = vsim.pmap(lambda i: run_history(binfo, scratch, cases[i]["variant"], cases[i]["plan"], cases[i]["hist"]), redo_ix)
        nondet = 0
        for i, r2 in zip(redo_ix, redo):
            r1 = results[i]
            if r1["log_hash"] != r2["log_hash"] or r1["kind"] != r2["kind"] or r1.get("detail") != r2.get("detail"):
                nondet += 1
                out.nondet.append("history %d: two executions of the same plan differ" % i)

        # ---- violations: gate, minimise, replay ------------------------------
        viol = [(i, r) for i, r in enumerate(results) if r["kind"] == "VIOLATION"]
        by_key = {}
        for i, r in viol:
            # the dedicated very-large-block histories carry a key prefix of their own (known finding)
            by_key.setdefault(("huge:" if cases[i]["meta"].get("huge") else "") + violation_key(r, cases[i]["variant"]), []).append(i)
        n_viol_reported = 0
        for key in sorted(by_key):
            text = out.classify(key)
            ids = by_key[key]
            if text is not None:
                out.known.append({"key": key, "text": "%s (%d histories this run, e.g. #%d)" % (text, len(ids), ids[0])})
                continue
            # smallest failing history of this class first
            ids.sort(key=lambda i: len(cases[i]["hist"]))
            i = ids[0]
            c = cases[i]
            r2 = run_history(binfo, scratch, c["variant"], c["plan"], c["hist"])
            if r2["kind"] != "VIOLATION" or violation_key(r2, c["variant"]) != key.replace("huge:", "", 1):
                out.nondet.append("history %d: violation %s did not reproduce" % (i, key))
                continue
            mstep = re.search(r"step=(\d+)", r2.get("detail", ""))
            p2, h2, runs = minimise(binfo, scratch, c["variant"], c["plan"], c["hist"], key,
                                    step=int(mstep.group(1)) if mstep else None)
            r3 = run_history(binfo, scratch, c["variant"], p2, h2)
            if r3["kind"] != "VIOLATION" or violation_key(r3, c["variant"]) != key.replace("huge:", "", 1):
                p2, h2, r3 = c["plan"], c["hist"], r2
            rp = vsim.write_replay(PID, "seed%d-h%d" % (seed, i), {
                "property": PID, "seed": seed, "history_index": i, "variant": c["variant"], "plan": p2, "history": h2,
                "class": r3.get("cls"), "key": key, "detail": r3.get("detail"), "source_key": binfo["key"],
                "original_steps": len(c["hist"]), "minimised_steps": len(h2), "minimiser_runs": runs,
                "other_failing_histories": ids[1:20]})
            out.violations.append({"key": key, "cls": r3.get("cls"), "detail": r3.get("detail", ""), "replay": rp})
            n_viol_reported += 1

        # ---- evidence --------------------------------------------------------
        probes = {}
        stats = {}
        ops_seen = {}
        ends = 0
        faulty = sum(1 for c in cases[:done] if c["meta"]["faulty"])
        refused = 0
        foreign = 0
        forcedgc = 0
        distinct = set()
        for c, r in zip(cases[:done], results):
            for k, v in r["log"]["probes"].items():
                probes[k] = probes.get(k, 0) + v
            for k, v in r.get("stats", {}).items():
                stats[k] = stats.get(k, 0) + v
            if r["kind"] == "END":
                ends += 1
            refused += r["log"]["z"].get("sbrk_refused", 0)
            foreign += r["log"]["z"].get("sbrk_foreign", 0)
            forcedgc += r["log"]["z"].get("forcedgc", 0)
            for o in c["meta"]["ops"]:
                ops_seen[o] = ops_seen.get(o, 0) + 1
            if r.get("stats", {}).get("allocs", 0) >= 2:
                distinct.add(r["log_hash"])
        # ---- program-driven histories (audit oracle) -----------------------------------------
        pcases = program_cases(seed, tier)
        pres = vsim.pmap(lambda c: program_world(binfo, scratch, c["program"], c["source"], c["q"], c["route"], c["plan"]), pcases) \
            if not budget.over() or True else []
        paud = 0
        pby = {}
        for c, (v, d) in zip(pcases, pres):
            m_ = re.search(r"audits=(\d+)", d)
            paud += int(m_.group(1)) if m_ else 0
            if v:
                pby.setdefault("program:%s:%s:%s" % (c["route"], v, re.sub(r"\s+", "", d)[:80]), []).append((c, d))
        for key in sorted(pby):
            text = out.classify(key)
            if text is not None:
                out.known.append({"key": key, "text": text})
                continue
            c, d = pby[key][0]
            v2, d2 = program_world(binfo, scratch, c["program"], c["source"], c["q"], c["route"], c["plan"])
            if not v2:
                out.nondet.append("program-driven history %s: violation did not reproduce" % c["program"])
                continue
            rpp = vsim.write_replay(PID, "seed%d-%s-%s" % (seed, c["program"][:-3], c["route"]), {
                "property": PID, "seed": seed, "program": c["program"], "source": c["source"].decode("latin-1"), "q": c["q"],
                "route": c["route"], "plan": c["plan"], "key": key, "detail": d2, "source_key": binfo["key"]})
            out.violations.append({"key": key, "cls": "audit", "detail": "program-driven history %s (%s): %s" % (c["program"], c["route"], d2), "replay": rpp})
        for d_, _m in _EXE.values():
            if d_:
                vsim.cleanup_world(d_)
        names = ["merge-next", "merge-prev", "split", "frontier-discarded", "tree-entry-reused", "os-backoff",
                 "pgmap-slide", "foreign-pages", "fixed-section-returned", "mixed-section-returned",
                 "sweep-merge", "natural-collection", "inner-page-alloc", "p13", "p14", "p15"]
        wall = time.time() - t0
        cov = {
            "evaluations": done,
            "distinct_nontrivial": len(distinct),
            "rule": "histories generated from VERIF_SEED (swarm: size alphabet, op weights, length, root kinds, layout, fill, forced-collection plan per history); distinct = distinct event-log hash; non-trivial = at least 2 successful allocations",
            "samples": [{"variant": c["variant"], "plan": c["plan"], "history": c["hist"][:40]} for c in cases[:3]],
            "histories_planned": len(cases), "histories_run": done,
            "histories_with_os_faults": faulty, "histories_fault_free": done - faulty,
            "histories_cut_short_cantbuild": ends,
            "os_refusals_delivered": refused, "foreign_break_movements": foreign, "forced_collections_by_plan": forcedgc,
            "faults_injected": {"sbrk refused (x op / arena cap)": refused, "foreign break movement (o op)": foreign,
                                "forced collection at an allocation (plan)": forcedgc},
            "operations_executed": stats.get("steps", 0),
            "harness_totals": stats,
            "reach_probes": dict((names[k], v) for k, v in sorted(probes.items())),
            "reach_probes_zero": [names[k] for k in range(13) if not probes.get(k)],
            "op_kinds_histories": ops_seen,
            "program_driven_histories": {"worlds": len(pcases), "programs": len(set(c["program"] for c in pcases)),
                                         "audits_executed": paud, "violating": sum(len(v) for v in pby.values()),
                                         "inconclusive_or_not_built": sum(1 for v, d in pres if not v and not d.startswith("audits="))},
            "determinism_reexecuted": len(redo_ix), "determinism_mismatches": nondet,
            "violating_histories": len(viol), "violation_keys": sorted(by_key),
            "known_findings_matched": [k["key"] for k in out.known],
            "runs_per_hour": int(done / max(wall, 1e-3) * 3600),
            "simulated_time": {"allocator_operations": stats.get("steps", 0), "collections": stats.get("gcs", 0) + stats.get("natural", 0)},
            "components": {"real": ["store.c", "btree.c", "memclim.c", "opsys.c/os_unix.c (osAlloc, osMemMap)"],
                           "simulated": ["sbrk (arena with refusals and foreign break movement)", "forced collections via the allocation hook"],
                           "variants": ["compiler build", "FOAM_RTS build"]},
            "source_key": binfo["key"],
        }
        vsim.write_evidence(PID, tier, seed, "exploration", cov, wall, violations=len(out.violations),
                            assumptions=["the handler installed by the harness returns null on out-of-memory; no resize is issued while a refusal is pending",
                                         "dropped blocks carry no reclamation claim (conservative marker)",
                                         "kernel ASLR replaced by seeded heap base"])
        vsim.say("C10 %s: %d histories, %d violating (%d keys), %d known, %.1fs" % (tier, done, len(viol), len(by_key), len(out.known), wall))
    return out.report()


if __name__ == "__main__":
    sys.exit(main(sys.argv[1:]))
