"""C09 -- garbage collection never changes what a program computes.

Allocation-heavy programs (generated + corpus) run on two routes -- the
interpreter inside the compiler, and the executable from the generated C
linked with the rebuilt runtime -- under collection schedules decided by the
simulator: never, natural, and forced at seeded subsets of allocation points
(every k-th with offset j, windows, Bernoulli subsets, right after an
allocation of a given size), with freed storage poisoned.  Oracle: stdout and
exit class equal those of the `never` schedule; no fault.  DESIGN.md 4/C09.
"""
import json
import os
import subprocess
import sys
import time

import buildlib
import checklib
import vsim
import worlds
import progen

PID = "C09"
FILLS = [("AA", "DD"), ("55", "22"), ("00", "FF"), ("FF", "00"), ("A5", "5A")]
BASES = ["200000000000", "31000000b000", "2aaa00007000", "7000000ff000"]
AXLLIB_A = os.path.join(buildlib.LIBREPO, "aldor", "lib", "axllib", "src", "libaxllib.a")
FOAMLIB_A = os.path.join(buildlib.LIBREPO, "aldor", "aldor", "lib", "libfoamlib", "libfoamlib.a")


def ROT(g):
    """two ordinary block kinds per generated program, by rotation: every kind is in some program of every tier"""
    rot = [b[0] for b in progen.BLOCKS if b[2] > 0 and b[0] not in ("docs", "tokens")]
    return (rot[(2 * g) % len(rot)], rot[(2 * g + 1) % len(rot)])


def build_exe(binfo, scratch, name, text, q, o):
    """aldor.sim -Fc -Fmain in a fault-free world, then gcc.  Returns dir with ./prog or None."""
    w = scratch.new()
    r = worlds.compile_world(binfo, w, {name: text}, [q, "-Fc", "-Fmain"], [name], cpu=120)
    base = name[:-3]
    sb = os.path.join(w, "sb")
    if r.rc != 0 or base + ".c" not in r.files:
        vsim.cleanup_world(w)
        return None, (r.out + r.err)[-300:].decode("latin-1", "replace")
    cmd = ["gcc", "-w", o, "-I", binfo["src"], "-o", "prog", base + ".c", base + "-aldormain.c",
           binfo["simobj"], AXLLIB_A, binfo["libfoam"], FOAMLIB_A, binfo["wrapflag"], "-lm"]
    p = subprocess.run(cmd, cwd=sb, stdout=subprocess.PIPE, stderr=subprocess.STDOUT)
    if p.returncode != 0:
        vsim.cleanup_world(w)
        return None, p.stdout[-300:].decode("latin-1", "replace")
    return w, ""


def gen_schedule(rng, route, nalloc, start, tier):
    """A schedule = list of plan lines (explicit events)."""
    kind = rng.weighted([("per", 5), ("win", 3), ("hash", 3), ("after", 3), ("natural", 2), ("tailwin", 4), ("tailper", 2)])
    cap = 300 if route == "interp" else (5000 if tier == "quick" else 60000)
    lines = []
    frm = start if rng.chance(2, 3) else 0
    total = max(nalloc, 10)
    if kind == "natural":
        return lines, {"kind": "natural"}
    if kind in ("tailwin", "tailper"):
        # the program's own work is the END of the allocation timeline (on the interpreter route the
        # compilation comes first): dense stretches of consecutive collections placed in a tail of
        # seeded length, so that they fall inside the program's loops rather than inside start-up
        tail = rng.loguniform(min(1000, total), max(min(1000, total), total // 2))
        wlen = 60 if route == "interp" else 400
        if kind == "tailwin":
            for _ in range(rng.range(2, max(2, cap // wlen))):
                lines.append("gc win %d %d" % (total - tail + rng.below(tail), rng.loguniform(2, wlen)))
        else:
            k = max(1, tail // cap)
            lines.append("gc per %d %d %d" % (k, rng.below(k), total - tail))
        lines.append("gc cap %d" % cap)
        return lines, {"kind": kind}
    if kind == "per":
        lo = 1 if route != "interp" else max(1, (total - frm) // cap)
        k = rng.loguniform(max(1, lo), 1000 if route != "interp" else max(lo, 20000))
        lines.append("gc per %d %d %d" % (k, rng.below(k), frm))
    elif kind == "win":
        for _ in range(rng.range(1, 4)):
            a = frm + rng.below(max(1, total - frm))
            lines.append("gc win %d %d" % (a, rng.loguniform(1, 400 if route != "interp" else 60)))
    elif kind == "hash":
        lo_bits = 0 if route != "interp" else max(0, ((total - frm) // cap).bit_length())
        lines.append("gc hash %d %d %d" % (rng.range(lo_bits, lo_bits + 8), rng.below(1 << 30), frm))
    else:
        sz = rng.choice([8, 16, 16, 24, 32, 40, 48, 64, 96, 128, 200, 256, 264, 512, 1024, 4096])
        lines.append("gc after-size %d" % sz)
    lines.append("gc cap %d" % cap)
    if rng.chance(1, 3):
        lines.append("audit every %d" % rng.choice([1, 7, 50]))
    return lines, {"kind": kind}


def base_plan(rng, route):
    fl = rng.choice(FILLS)
    p = ["heapbase " + rng.choice(BASES), "stackpad %d" % rng.choice([0, 0, rng.range(1, 65536)])]
    if rng.chance(1, 3):	# the process has further writable mappings of its own (host application, libraries)
        p.append("mmaps %d" % rng.choice([3, 26, 40, 200]))
    if route == "interp":
        p.append("wash on %s %s" % fl)		# poison freed storage of the compiler's heap
    else:
        p.append("fill %s %s" % fl)		# the runtime washes by default
    return p


def run_prog(binfo, scratch, prog, route, plan):
    """Run a built program (route 'exe') or interpret it (route 'interp')."""
    if route == "interp":
        w = scratch.new()
        # the interpreter runs the FOAM the optimiser left: same optimisation level as the executable
        r = worlds.compile_world(binfo, w, {prog["name"]: prog["text"]}, ["-Ginterp"] + ([prog["q"]] if prog.get("q") else []), [prog["name"]],
                                 plan_extra=plan, cpu=prog.get("cpu_i", 120))
        vsim.cleanup_world(w)
        return r
    w = scratch.new()
    os.makedirs(os.path.join(w, "sb"))
    r = vsim.run_world(binfo, [os.path.join(prog["exe_dir"], "sb", "prog")], plan, w, cpu=prog.get("cpu_e", 120), collect=False)
    vsim.cleanup_world(w)
    return r


def exit_class(r):
    if r.timeout:
        return "hang"
    if r.sig is not None:
        return "signal"
    return "ok" if r.rc == 0 else "fail"


STORAGE_FAULT = (b"Program fault", b"Storage allocation error", b"segmentation", b"Segmentation")


def judge(r, ref):
    """None or a violation class."""
    txt = r.out + r.err
    if r.timeout:
        return "hang"
    if b"Assertion failed" in r.err and b"store.c" in r.err:
        return "audit"		# allocator observation, not a C09 verdict
    if r.sig is not None or any(s in txt for s in STORAGE_FAULT):
        return "storage-fault"
    if exit_class(r) != exit_class(ref):
        return "exit-differs"
    if r.out != ref.out:
        return "output-differs"
    return None


def main(argv):
    tier, replay, rest = checklib.parse_args(argv)
    seed = vsim.seed_from_env()
    t0 = time.time()
    binfo = buildlib.build()
    out = checklib.Outcome(PID)

    with vsim.Scratch("c09") as scratch:
        if replay:
            rp = json.load(open(replay))
            if rp.get("route") == "loop":
                w = scratch.new()
                os.makedirs(w, exist_ok=True)
                with open(os.path.join(w, "script"), "wb") as f:
                    f.write(rp["script"].encode("latin-1"))
                r = worlds.compile_world(binfo, w, {}, ["-Gloop"], [], plan_extra=list(rp["plan"]) + ["stdin ../script"], cpu=600)
                marks = [l.decode("latin-1") for l in r.out.split(b"\n") if l.startswith(b"@")]
                bad = r.sig is not None or any(x in r.out + r.err for x in STORAGE_FAULT) or marks != rp["expected_marks"]
                vsim.say("replay: loop route, marks %s" % ("differ / fault" if bad else "as expected"))
                if bad:
                    vsim.say("VIOLATION property=%s replay=%s" % (PID, replay))
                    return 1
                return 0
            prog = {"name": rp["name"], "text": rp["source"].encode("latin-1"), "q": rp.get("q")}
            if rp["route"] == "exe":
                d, msg = build_exe(binfo, scratch, prog["name"], prog["text"], rp["q"], rp["o"])
                if not d:
                    vsim.say("replay: cannot build the program: " + msg)
                    return 2
                prog["exe_dir"] = d
            ref = run_prog(binfo, scratch, prog, rp["route"], rp["ref_plan"])
            r = run_prog(binfo, scratch, prog, rp["route"], rp["plan"])
            v = judge(r, ref)
            vsim.say("replay: verdict=%s" % v)
            if v and v != "audit":
                vsim.say("VIOLATION property=%s replay=%s" % (PID, replay))
                return 1
            return 0

        ngen = 12 if tier == "quick" else 60
        ncorp = 4 if tier == "quick" else 30
        nsched = 10 if tier == "quick" else 30
        cands = []
        for g in range(ngen):
            size = "heavy" if g % 4 != 3 else "small"
            cands.append({"name": "g%03d.as" % g, "text": progen.gen_program(vsim.Rng(seed, "c09-gen", g), size=size,
                                                                              force=(("frag",) if g % 4 == 1 else (("chain",) if g % 4 == 2 else (("bigdrop",) if g % 4 == 0 else ("sizes",)))) + ROT(g),
                                                                              finale=True).encode("latin-1"),
                          "origin": "generated"})
        # one dedicated program for a known finding (raw records with a narrow field before a
        # pointer field, compiled route): kept apart so that it masks nothing else
        rr = progen.b_rawrec("0", vsim.Rng(seed, "c09-rawrec"), 60)
        cands.append({"name": "rawrec.as", "text": progen.render([("rawrec", rr[0], rr[2])]).encode("latin-1"), "origin": "generated"})
        # a second dedicated program for a known finding: the marker recurses once per object
        # unless the link sits in the object's last word; a chain of several 10^5 cells linked
        # through their FIRST field exhausts the C stack during a collection
        dc = progen.b_chain("0", vsim.Rng(seed, "c09-deepchain"), 0, length=400000)
        cands.append({"name": "deepchain.as", "text": progen.render([("chain", dc[0], dc[2])]).encode("latin-1"), "origin": "generated"})
        # micro programs: one block kind each, a handful of iterations - small enough for a collection
        # at EVERY allocation of the program's own work (exhaustive over that stretch)
        for name, text in progen.micro_programs(vsim.Rng(seed, "c09-micro")):
            cands.append({"name": name, "text": text.encode("latin-1"), "origin": "micro"})
        cs = worlds.corpus(max_bytes=5000)
        rngc = vsim.Rng(seed, "c09-corpus")
        rngc.shuffle(cs)
        for n, pth, sz in cs[:ncorp * 3]:
            cands.append({"name": n, "text": open(pth, "rb").read(), "origin": "corpus"})
        for i, c in enumerate(cands):
            r = vsim.Rng(seed, "c09-cfg", c["name"])
            c["q"] = r.choice(["-Q1", "-Q2", "-Q2", "-Q3"])
            c["o"] = r.choice(["-O1", "-O2"])

        if os.environ.get("VERIF_C09_ONLY"):	# debugging aid: restrict the workload to named programs
            cands = [c for c in cands if c["name"] in os.environ["VERIF_C09_ONLY"].split(",")]
        if os.environ.get("VERIF_TIMING"): vsim.say("T build %.1f" % (time.time() - t0))
        # build executables
        built = vsim.pmap(lambda c: build_exe(binfo, scratch, c["name"], c["text"], c["q"], c["o"]), cands)
        progs = []
        skipped = []
        ncor = 0
        for c, (d, msg) in zip(cands, built):
            if not d:
                skipped.append(c["name"])
                continue
            if c["origin"] == "corpus":
                if ncor >= ncorp:
                    vsim.cleanup_world(d)
                    continue
                ncor += 1
            c["exe_dir"] = d
            progs.append(c)

        # reference runs: `never` under two layouts/clocks; programs whose fault-free output
        # depends on layout or time are removed from the workload (and counted)
        never = ["gclevel 1"]

        def refs_of(c):
            out_ = {}
            for route in ("exe", "interp"):
                a = run_prog(binfo, scratch, c, route, ["heapbase 200000000000"] + never + ["trace allocs"] * 0)
                b = run_prog(binfo, scratch, c, route, ["heapbase 31000000b000", "stackpad 4096", "clock 5000 jump 2 777"] + never)
                out_[route] = (a, b)
            return out_
        if os.environ.get("VERIF_TIMING"): vsim.say("T refs %.1f" % (time.time() - t0))
        allrefs = vsim.pmap(refs_of, progs)
        work = []
        unstable = []
        for c, rf in zip(progs, allrefs):
            for route in ("exe", "interp"):
                a, b = rf[route]
                if a.timeout or judge(a, a) or a.out != b.out or exit_class(a) != exit_class(b) or a.sig is not None:
                    unstable.append("%s/%s" % (c["name"], route))
                    continue
                z = vsim.parse_log(a.log)["z"]
                c["cpu_" + route[0]] = max(30, int((a.cpu if a.cpu is not None else a.wall) * 40) + 60)
                work.append((c, route, a, z.get("allocs", 0)))
        # start-up allocations of each route (a program that only prints)
        hello = {"name": "hello.as", "text": worlds.HELLO}
        hd, _ = build_exe(binfo, scratch, "hello.as", worlds.HELLO, "-Q2", "-O1")
        start = {"exe": 0, "interp": 0}
        if hd:
            hello["exe_dir"] = hd
            for route in ("exe", "interp"):
                hr = run_prog(binfo, scratch, hello, route, ["heapbase 200000000000"] + never)
                start[route] = int(vsim.parse_log(hr.log)["z"].get("allocs", 0) * 0.8)

        cases = []
        micro_blocks = 0
        for wi, (c, route, ref, nalloc) in enumerate(work):
            rng = vsim.Rng(seed, "c09-sched", c["name"], route)
            if c["origin"] == "micro":
                own = max(300, nalloc - start[route])	# the program's own work is the end of the timeline
                if route == "exe":
                    cases.append((wi, base_plan(rng, route) + ["gc per 1 0 %d" % max(0, nalloc - own - 200), "gc cap 200000"], {"kind": "micro-every"}))
                else:
                    nblk = min((own + 299) // 300 + 1, 14 if tier == "quick" else 80)
                    for j in range(nblk):
                        cases.append((wi, base_plan(rng, route) + ["gc win %d 300" % max(1, nalloc - (j + 1) * 300), "gc cap 300"], {"kind": "micro-every"}))
                        micro_blocks += 1
                continue
            if route == "exe" and nalloc <= 50000 and tier == "thorough":
                cases.append((wi, base_plan(rng, route) + ["gc per 1 0", "gc cap 100000"], {"kind": "every"}))
            for _ in range(nsched):
                lines, meta = gen_schedule(rng, route, nalloc, start[route], tier)
                cases.append((wi, base_plan(rng, route) + lines, meta))
        # a wall-clock budget must thin the worlds evenly, not drop the programs that come last
        vsim.Rng(seed, "c09-order").shuffle(cases)
        if os.environ.get("VERIF_TIMING"): vsim.say("T cases %.1f" % (time.time() - t0))
        budget = checklib.Budget(420 if tier == "quick" else 2700)
        results = []
        B = 256
        for b0 in range(0, len(cases), B):
            if budget.over():
                break
            results += vsim.pmap(lambda cs_: run_prog(binfo, scratch, work[cs_[0]][0], work[cs_[0]][1], cs_[1]), cases[b0:b0 + B])
        done = len(results)

        # A run that exceeds its CPU budget under a forced schedule is either a hang or merely
        # the price of tens of thousands of collections.  Decide by re-running the same schedule
        # with the cap on forced collections divided by 10 (twice at most): the schedule is the
        # same up to the cap.  If that finishes, the original run was inconclusive (slow), the
        # cheaper run is judged in its place; a run that still does not finish with a cap of a
        # few hundred collections is a hang.
        if os.environ.get("VERIF_TIMING"): vsim.say("T main-run %.1f" % (time.time() - t0))
        slow_ix = [i for i in range(done) if results[i].timeout]
        slow_attributed = 0
        for level in (10, 100):
            if not slow_ix:
                break
            def lower(i, level=level):
                wi, plan, meta = cases[i]
                plan2 = [("gc cap %d" % max(50, int(l.split()[2]) // level)) if l.startswith("gc cap ") else l for l in plan]
                return run_prog(binfo, scratch, work[wi][0], work[wi][1], plan2), plan2
            redo_slow = vsim.pmap(lower, slow_ix)
            still = []
            for i, (r2, plan2) in zip(slow_ix, redo_slow):
                if r2.timeout:
                    still.append(i)
                    cases[i] = (cases[i][0], plan2, dict(cases[i][2], lowered_cap=level))
                else:
                    results[i] = r2
                    cases[i] = (cases[i][0], plan2, dict(cases[i][2], lowered_cap=level))
                    slow_attributed += 1
            slow_ix = still

        verd = []
        forced = 0
        freed = 0
        audits = 0
        audit_fail = []
        kinds = {}
        distinct = set()
        reused = 0
        for (wi, plan, meta), r in zip(cases[:done], results):
            v = judge(r, work[wi][2])
            lg = vsim.parse_log(r.log)
            forced += lg["z"].get("forcedgc", 0)
            audits += lg["z"].get("audits", 0)
            freed += sum(1 for g in lg["gc"] if g[1] > 0)
            kinds[meta["kind"]] = kinds.get(meta["kind"], 0) + 1
            if lg["z"].get("forcedgc", 0) > 0 or meta["kind"] == "natural":
                distinct.add((wi, r.log_hash()))
            if v == "audit":
                audit_fail.append({"program": work[wi][0]["name"], "route": work[wi][1], "plan": plan, "stderr": r.err[-200:].decode("latin-1", "replace")})
                v = None
            verd.append(v)

        if os.environ.get("VERIF_TIMING"): vsim.say("T judge %.1f" % (time.time() - t0))
        # determinism sample
        redo_ix = [i for i in range(done) if vsim.Rng(seed, "redo09", i).chance(4, 100)][:40]
        redo = vsim.pmap(lambda i: run_prog(binfo, scratch, work[cases[i][0]][0], work[cases[i][0]][1], cases[i][1]), redo_ix)
        mism = 0
        for i, r2 in zip(redo_ix, redo):
            if r2.timeout or results[i].timeout:
                continue		# where a CPU budget cuts a run is not part of the simulated world
            if r2.log_hash() != results[i].log_hash() or r2.out != results[i].out:
                mism += 1
                out.nondet.append("case %d: two executions of the same schedule differ" % i)

        by_key = {}
        for i, v in enumerate(verd):
            if v:
                tag = {"rawrec.as": "rawrec:", "deepchain.as": "deepchain:"}.get(work[cases[i][0]][0]["name"], "")
                by_key.setdefault("%s%s:%s" % (tag, work[cases[i][0]][1], v), []).append(i)
        for key in sorted(by_key):
            ids = by_key[key]
            text = out.classify(key)
            if text is not None:
                out.known.append({"key": key, "text": text})
                continue
            ids.sort(key=lambda i: (len(work[cases[i][0]][0]["text"]), len(cases[i][1])))
            i = ids[0]
            wi, plan, meta = cases[i]
            c, route, ref, nalloc = work[wi]
            want = verd[i]

            def fails(sub):
                rr = run_prog(binfo, scratch, c, route, sub)
                return judge(rr, ref) == want
            if not fails(plan):
                out.nondet.append("case %d: violation %s did not reproduce" % (i, key))
                continue
            keep = [l for l in plan if l.startswith("heapbase")]
            opt = [l for l in plan if not l.startswith("heapbase")]
            mopt, _ = checklib.ddmin(opt, lambda sub: fails(keep + sub), 16) if len(opt) > 1 else (opt, 0)
            mplan = keep + mopt
            if not fails(mplan):
                mplan = plan
            rp = vsim.write_replay(PID, "seed%d-c%d" % (seed, i), {
                "property": PID, "seed": seed, "name": c["name"], "source": c["text"].decode("latin-1"), "route": route,
                "q": c["q"], "o": c["o"], "ref_plan": ["heapbase 200000000000"] + never, "plan": mplan, "verdict": want,
                "key": key, "source_key": binfo["key"], "other_failing_cases": len(ids) - 1})
            out.violations.append({"key": key, "cls": want, "detail": "%s on route %s under %s (%d cases)" % (c["name"], route, mplan, len(ids)), "replay": rp})

        if os.environ.get("VERIF_TIMING"): vsim.say("T by-key %.1f" % (time.time() - t0))
        # ---- third route: the interactive loop with its own collection command -------------------
        # `#int gc' is the only caller of the interpreter's stack cleaning (fintFreeJunk); the same
        # generated programs run as sessions - one step per block, `#int gc' between the steps - under
        # seeded forced schedules, compared with the session without the command and nothing forced
        def loop_world(script, plan, cpu=120):
            w = scratch.new()
            os.makedirs(w, exist_ok=True)
            with open(os.path.join(w, "script"), "wb") as f:
                f.write(script.encode("latin-1"))
            r = worlds.compile_world(binfo, w, {}, ["-Gloop"], [], plan_extra=list(plan) + ["stdin ../script"], cpu=cpu)
            vsim.cleanup_world(w)
            return r

        def loop_marks(r):
            return [l for l in r.out.split(b"\n") if l.startswith(b"@")]
        loop_cases, loop_refs = [], {}
        for g in range(4 if tier == "quick" else 24):
            rg = vsim.Rng(seed, "c09-loop", g)
            blocks = progen.gen_blocks(rg.fork("b"), "small" if g % 2 else "heavy", ("deeprec",) if g % 2 == 0 else ("chain",) if g % 4 == 1 else ())
            blocks = [b for b in blocks if b[0] not in ("docs", "rawrec")]	# (a `+++' line is not a step of its own)
            ref = loop_world(progen.render_loop(blocks, gc=False), ["heapbase 200000000000", "gclevel 1"])
            if ref.rc != 0 or ref.timeout or worlds.fault_class(ref) or not loop_marks(ref):
                continue
            loop_refs[g] = ref
            nal = vsim.parse_log(ref.log)["z"].get("allocs", 0)
            for k in range(3 if tier == "quick" else 8):
                lines, meta = gen_schedule(rg, "interp", nal, start["interp"], tier)
                loop_cases.append((g, progen.render_loop(blocks, gc=True), base_plan(rg, "interp") + lines))
        loop_res = vsim.pmap(lambda c: loop_world(c[1], c[2], cpu=max(120, int((loop_refs[c[0]].cpu or 5) * 40) + 60)), loop_cases)
        loop_by = {}
        for (g, script, plan), r in zip(loop_cases, loop_res):
            v = None
            if r.timeout:
                v = None		# (over the budget with hundreds of forced collections: inconclusive, not a verdict)
            elif r.sig is not None or any(x in r.out + r.err for x in STORAGE_FAULT):
                v = "storage-fault"
            elif r.rc != loop_refs[g].rc:
                v = "exit-differs"
            elif loop_marks(r) != loop_marks(loop_refs[g]):
                v = "output-differs"
            if v:
                loop_by.setdefault("loop:" + v, []).append((g, script, plan, r))
        for key in sorted(loop_by):
            text = out.classify(key)
            if text is not None:
                out.known.append({"key": key, "text": text})
                continue
            g, script, plan, r = loop_by[key][0]
            r2 = loop_world(script, plan, cpu=max(120, int((loop_refs[g].cpu or 5) * 40) + 60))
            if r2.out != r.out or r2.rc != r.rc:
                out.nondet.append("loop session g%d: violation %s did not reproduce" % (g, key))
                continue
            rp = vsim.write_replay(PID, "seed%d-loop%d" % (seed, g), {
                "property": PID, "seed": seed, "route": "loop", "script": script, "plan": plan, "key": key,
                "expected_marks": [x.decode("latin-1") for x in loop_marks(loop_refs[g])],
                "got_tail": (r.out + r.err)[-400:].decode("latin-1", "replace"), "source_key": binfo["key"]})
            out.violations.append({"key": key, "cls": key.split(":")[1], "detail": "loop session g%d under %s (%d cases)" % (g, plan, len(loop_by[key])), "replay": rp})

        if os.environ.get("VERIF_TIMING"): vsim.say("T loop-route %.1f" % (time.time() - t0))
        for c in progs:
            vsim.cleanup_world(c["exe_dir"])
        wall = time.time() - t0
        cov = {
            "evaluations": done,
            "distinct_nontrivial": len(distinct),
            "rule": "per (program, route) seeded collection schedules: every k-th allocation with offset j (k log-uniform), windows of consecutive allocations, Bernoulli subsets of density 2^-r, right-after-size-S, natural; compared with the `never` schedule (collector level demand, nothing forced); distinct = distinct (program, route, event-log hash); non-trivial = at least one forced collection executed or natural schedule",
            "samples": [{"program": work[c[0]][0]["name"], "route": work[c[0]][1], "plan": c[1]} for c in cases[:done:max(1, done // 5)]][:6],
            "programs": len(progs), "program_names": [c["name"] for c in progs], "programs_not_built": skipped,
            "program_routes_removed_unstable_reference": unstable,
            "program_routes": len(work), "worlds_planned": len(cases), "worlds_run": done,
            "schedule_kinds": kinds, "micro_programs_every_allocation_blocks": micro_blocks,
            "loop_route": {"sessions": len(loop_refs), "worlds": len(loop_cases), "violating": sum(len(v) for v in loop_by.values())},
            "forced_collections_executed": forced, "forced_collections_that_freed_storage": freed,
            "audits_executed": audits, "allocator_audit_failures_observed_not_gated": audit_fail[:5],
            "startup_allocations": start,
            "worlds_over_cpu_budget_rerun_with_lower_cap": slow_attributed, "worlds_hanging_at_lowest_cap": len(slow_ix),
            "violating_worlds": sum(1 for v in verd if v), "violation_keys": dict((k, len(v)) for k, v in by_key.items()),
            "determinism_reexecuted": len(redo_ix), "determinism_mismatches": mism,
            "runs_per_hour": int(done / max(wall, 1e-3) * 3600),
            "simulated_time": {"allocations_observed": sum(vsim.parse_log(r.log)["z"].get("allocs", 0) for r in results)},
            "components": vsim.components(), "source_key": binfo["key"],
        }
        vsim.write_evidence(PID, tier, seed, "exploration", cov, wall, violations=len(out.violations),
                            assumptions=["the value a program should print is C01's business; this is a schedule-independence oracle",
                                         "an allocator audit assertion inside a C09 world is an allocator observation (C10), not a C09 verdict",
                                         "gcc's own prologue spills callee-saved registers, so removing the setjmp register spill is not detectable"])
        if audit_fail:
            vsim.say("NOTE: %d allocator audit failure(s) observed inside C09 worlds (reported in evidence; C10's subject)" % len(audit_fail))
        vsim.say("C09 %s: %d programs, %d program-routes, %d worlds, %d forced collections, %d violating (%d keys), %.1fs" %
                 (tier, len(progs), len(work), done, forced, cov["violating_worlds"], len(by_key), wall))
    return out.report()


if __name__ == "__main__":
    sys.exit(main(sys.argv[1:]))
