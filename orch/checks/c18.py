"""C18 -- a successful exit means every requested output was written.

The compiler runs with its outputs on the simulated disk; an explicit fault
plan makes writes run out of space, fail with EIO, fail only at close, or
makes the open / mkdir fail.  Oracle over the recorded fs history and the
process result; see DESIGN.md section 4/C18.
"""
import json
import os
import sys
import time

import buildlib
import checklib
import vsim
import worlds

PID = "C18"
ALL = worlds.OUT_CLASSES


def programs(seed, tier):
    cs = [c for c in worlds.corpus(max_bytes=4000)]
    rng = vsim.Rng(seed, "c18-programs")
    rng.shuffle(cs)
    n = 6 if tier == "quick" else 120
    progs = [("hello.as", worlds.HELLO)]
    for name, path, sz in cs:
        if len(progs) >= n * 3:	# candidates; validated by the fault-free run
            break
        progs.append((name, open(path, "rb").read()))
    return progs, n


def flags(classes):
    """Command-line options for a set of output classes; `h` (and several .c files) come
    from splitting the generated C with -Csmax."""
    f = [worlds.OUT_FLAG[c] for c in classes if c not in ("h", "R", "cpph", "cppas")]
    if "cpph" in classes or "cppas" in classes:	# one option, two files: <name>_cc.h and <name>_as.as
        f.append("-Fc++")
    if "h" in classes:
        f.append("-Csmax=5")
    if "R" in classes:		# pseudo class: outputs go to an (existing) directory given with -R
        f = ["-R", "out"] + f
    return f


def mk_outdir(classes):
    if "R" not in classes:
        return None
    return lambda sb: os.makedirs(os.path.join(sb, "out"), exist_ok=True)


def _files(name, text):
    """name/text are either one source, or tuples of names and texts (several files in one invocation)."""
    if isinstance(name, (tuple, list)):
        return dict(zip(name, text)), list(name)
    return {name: text}, [name]


def reference(binfo, scratch, name, text, classes):
    w = scratch.new()
    files, srcs = _files(name, text)
    r = worlds.compile_world(binfo, w, files, flags(classes), srcs, cpu=60, pre=mk_outdir(classes))
    vsim.cleanup_world(w)
    return r


def gen_plans(rng, ref, classes, tier):
    """Fault plans for one program, given the fault-free run `ref`.  Each plan
    is a list of explicit events (dicts)."""
    sizes = {}
    writes = {}
    for rel, data in ref.files.items():
        sizes[worlds.cls_of(rel)] = len(data)
    for ev in vsim.parse_log(ref.log)["fs"]:
        if ev[0] == "W":
            writes[ev[1]] = writes.get(ev[1], 0) + 1
    plans = [[]]	# the fault-free plan
    for c in classes:
        if c == "R":
            continue
        S = sizes.get(c, 0)
        if S <= 0:
            continue
        bs = [0, 1, S - 1, S // 2, rng.range(1, max(1, S - 1))]
        for b in (4095, 4096, 4097):
            if b < S:
                bs.append(b)
        bs = sorted(set(b for b in bs if 0 <= b < S))
        if tier == "quick":
            bs = rng.sample(bs, min(3, len(bs)))
        for b in bs:
            plans.append([{"k": "enospc", "c": c, "a": b}])
        plans.append([{"k": "enospc", "c": c, "a": S}])		# exactly fits: nothing must fire
        nw = writes.get(c, 1)
        ks = sorted(set([1, nw, rng.range(1, nw)]))
        if tier == "quick":
            ks = [rng.choice(ks)]
        for k in ks:
            plans.append([{"k": "eio", "c": c, "a": k}])
        for e in ((28,) if tier == "quick" else (28, 5, 122)):
            plans.append([{"k": "closefail", "c": c, "a": e}])
        for e in (rng.sample([13, 2, 21, 24], 1) if tier == "quick" else (13, 2, 21, 24)):
            plans.append([{"k": "openfail", "c": c, "a": e}])
        plans.append([{"k": "dirtarget", "c": c}])
        if c in ("c", "lsp", "main", "h"):	# kinds the compiler refuses to overwrite when it did not generate them
            plans.append([{"k": "foreign", "c": c, "a": rng.below(3)}])
    if "java" in classes:
        plans.append([{"k": "mkdirfail", "a": 13}])
        if tier != "quick":
            plans.append([{"k": "mkdirfail", "a": 28}])
    # subsets of outputs
    singles = [p for p in plans if len(p) == 1 and p[0]["k"] not in ("dirtarget", "foreign") and p[0].get("c")]
    for _ in range(4 if tier == "quick" else 30):
        k = rng.range(2, 3)
        pick = rng.sample(singles, min(k, len(singles)))
        seen, combo = set(), []
        for p in pick:
            if p[0]["c"] not in seen:
                seen.add(p[0]["c"])
                combo.append(dict(p[0]))
        if len(combo) >= 2:
            plans.append(combo)
    return plans


def plan_lines(plan):
    out = []
    for ev in plan:
        if ev["k"] == "mkdirfail":
            out.append("fs mkdirfail %d" % ev["a"])
        elif ev["k"] in ("dirtarget", "foreign"):
            pass
        else:
            out.append("fs %s %s %d" % (ev["k"], ev["c"], ev["a"]) + (" file %d" % ev["nth"] if ev.get("nth") else ""))
    return out


def run_plan(binfo, scratch, name, text, classes, plan, ref):
    w = scratch.new()
    pre = mk_outdir(classes)
    dirs = [ev["c"] for ev in plan if ev["k"] == "dirtarget"]
    files, srcs = _files(name, text)
    foreign = []
    for ev in plan:
        if ev["k"] == "foreign":	# the target exists already and was not written by the compiler
            for rel in sorted(ref.files):
                if worlds.cls_of(rel) != ev["c"]:
                    continue
                if ev.get("nth") and not os.path.basename(rel).startswith(srcs[ev["nth"] - 1][:-3]):
                    continue
                foreign.append((rel, ev.get("a", 0)))
    if dirs or foreign:
        targets = [rel for rel in ref.files if worlds.cls_of(rel) in dirs]

        def pre(sb):
            if "R" in classes:
                os.makedirs(os.path.join(sb, "out"), exist_ok=True)
            for rel in targets:
                os.makedirs(os.path.join(sb, rel), exist_ok=True)
            for rel, how in foreign:
                p = os.path.join(sb, rel)
                os.makedirs(os.path.dirname(p), exist_ok=True)
                with open(p, "w") as f:
                    f.write(FOREIGN[how])
    r = worlds.compile_world(binfo, w, files, flags(classes), srcs,
                             plan_extra=plan_lines(plan), cpu=60, pre=pre)
    for rel, how in foreign:	# what the hand-written file held is not an output of the run
        if r.files.get(rel) == FOREIGN[how].encode():
            r.files.pop(rel, None)
    vsim.cleanup_world(w)
    return r


def judge(plan, r, ref):
    """Returns (verdict, detail, fired) with verdict None when the oracle holds."""
    lg = vsim.parse_log(r.log)
    fired = [(k, c) for k, c, n in lg["faults"] if n > 0]
    dirt = [ev["c"] for ev in plan if ev["k"] == "dirtarget"]
    foreign = [ev["c"] for ev in plan if ev["k"] == "foreign"]
    any_fired = bool(fired) or bool(dirt)
    if lg["escapes"]:
        return "output-escaped", "the compiler tried to create %s outside the directory its outputs belong to" % ", ".join(lg["escapes"][:3]), fired
    fc = worlds.fault_class(r)
    if fc == "hang":
        return "hang", "cpu cap exceeded", fired
    if fc in ("fault", "bug"):
        return fc, (r.out + r.err)[-300:].decode("latin-1", "replace"), fired
    if r.rc == 0:
        # 1. every requested output exists and is complete
        missing = [k for k in ref.files if k not in r.files]
        differ = [k for k in ref.files if k in r.files and r.files[k] != ref.files[k]]
        if missing or differ:
            what = ["%s(missing)" % m for m in missing] + \
                   ["%s(%d of %d bytes)" % (d, len(r.files[d]), len(ref.files[d])) for d in differ]
            cls = sorted(set(worlds.cls_of(k) for k in missing + differ))
            return "exit0-incomplete", "exit 0 but " + ", ".join(what) + " ; classes " + ",".join(cls), fired
        if any_fired:
            return "exit0-after-fault", "a write/close/open of an output failed (%s) but the compiler exited 0" % fired, fired
    else:
        # a target that exists and was not generated by the compiler may be refused (with a
        # diagnostic) or overwritten (then exit 0 needs complete outputs, checked above)
        if not any_fired and not foreign:
            return "perturbed", "no fault fired but exit status %r differs from the fault-free run" % r.rc, fired
        if not worlds.has_diag(r):
            return "silent-refusal", "exit %r without an error diagnostic" % r.rc, fired
    if not any_fired and not foreign:
        if r.rc != ref.rc or r.files != ref.files or r.out != ref.out:
            return "perturbed", "no fault fired but the run differs from the fault-free run", fired
    return None, "", fired


CPP_SRC = b'''#include "axllib"
Foo: with { bar: SingleInteger -> SingleInteger; baz: (SingleInteger, SingleInteger) -> SingleInteger } == add {
	bar(n: SingleInteger): SingleInteger == n + 1;
	baz(a: SingleInteger, b: SingleInteger): SingleInteger == a * b;
}
'''
FOREIGN = ["/* written by hand */\nint x;\n", "", "\0" * 64]
EXT = {"ao": ".ao", "fm": ".fm", "c": ".c", "lsp": ".lsp", "asy": ".asy", "ap": ".ap", "ai": ".ai"}


def other_directory_cases(binfo, scratch):
    """No injected fault, an independent expectation: a saved form (.fm / .ao) that lies in
    ANOTHER directory is compiled together with a source; on exit 0 every requested kind
    must exist for every unit in the working directory.  Returns a list of
    (verdict or None, detail, description)."""
    out = []
    y = b'#include "axllib"\nprint << "yo" << newline;\n'
    for kind, classes in (("fm", ["fm", "lsp", "c"]), ("ao", ["ao", "c", "lsp"])):
        w = scratch.new()
        r0 = worlds.compile_world(binfo, w, {"x.as": worlds.HELLO}, ["-Fao", "-Ffm"], ["x.as"], cpu=60)
        sb = os.path.join(w, "sb")
        sub = os.path.join(sb, "sub")
        os.makedirs(sub, exist_ok=True)
        with open(os.path.join(sub, "y.as"), "wb") as f:
            f.write(y)
        argv = [binfo["aldor"]] + buildlib.aldor_args() + flags(classes) + ["../x." + kind, "y.as"]
        r = vsim.run_world(binfo, argv, ["fs root " + sb], w, cwd=sub, cpu=60, collect=False)
        have = set(os.listdir(sub))
        desc = "aldor %s ../x.%s y.as (in a sub-directory)" % (" ".join(flags(classes)), kind)
        verdict, detail = None, ""
        fc = worlds.fault_class(r)
        if fc:
            verdict, detail = fc, (r.out + r.err)[-200:].decode("latin-1", "replace")
        elif r.rc == 0:
            missing = [u + EXT[c] for u in ("x", "y") for c in classes
                       if (u + EXT[c]) not in have or os.path.getsize(os.path.join(sub, u + EXT[c])) == 0]
            if missing:
                verdict, detail = "exit0-missing-output", "exit 0 but %s not written" % ", ".join(missing)
        elif not worlds.has_diag(r):
            verdict, detail = "silent-refusal", "exit %r without a diagnostic" % r.rc
        out.append((verdict, detail, desc, kind))
        vsim.cleanup_world(w)
    return out


def explicit_name_cases(binfo, scratch):
    """No injected fault, an independent expectation: one output kind gets an explicit name
    (-F<kind>=<name>) while all nine kinds are requested; on exit 0 the named file holds what
    the default-named file of that kind holds in the reference run and every other output is
    the same as there.  Same result shape as other_directory_cases."""
    out = []
    classes = list(ALL)
    w = scratch.new()
    ref = worlds.compile_world(binfo, w, {"x.as": worlds.HELLO}, flags(classes), ["x.as"], cpu=60)
    vsim.cleanup_world(w)
    if ref.rc != 0:
        return [("reference-failed", (ref.out + ref.err)[-200:].decode("latin-1", "replace"), "aldor %s x.as" % " ".join(flags(classes)), "name-ref")]
    for k in ("ai", "ap", "asy", "ao", "fm", "lsp", "c", "main"):
        alt = "alt" + EXT[k] if k != "main" else "altmain.c"
        fl = [("-F%s=%s" % (k, alt)) if c == k else worlds.OUT_FLAG[c] for c in classes]
        w = scratch.new()
        r = worlds.compile_world(binfo, w, {"x.as": worlds.HELLO}, fl, ["x.as"], cpu=60)
        vsim.cleanup_world(w)
        desc = "aldor %s x.as" % " ".join(fl)
        verdict, detail = None, ""
        fc = worlds.fault_class(r)
        if fc:
            verdict, detail = fc, (r.out + r.err)[-200:].decode("latin-1", "replace")
        elif r.rc == 0:
            bad = []
            for rel, data in ref.files.items():
                want = alt if rel == ("x" + EXT[k] if k != "main" else "x-aldormain.c") else rel
                if want not in r.files:
                    bad.append(want + " not written")
                elif r.files[want] != data:
                    bad.append(want + " differs from the reference " + rel)
            if bad:
                verdict, detail = "exit0-missing-output", "exit 0 but " + ", ".join(bad)
        elif not worlds.has_diag(r):
            verdict, detail = "silent-refusal", "exit %r without a diagnostic" % r.rc
        out.append((verdict, detail, desc, "name-" + k))
    return out


def outdir_cases(binfo, scratch):
    """No injected fault: -R names a directory that is missing, or a plain file; and an explicit Java
    file name without a directory part.  Exit 0 needs every requested output inside the place that
    was asked for; nothing may be created outside the sandbox."""
    out = []
    kinds = ["ao", "fm", "c", "lsp", "java"]
    fl = [worlds.OUT_FLAG[c] for c in kinds]
    for state in ("missing", "plainfile", "present"):
        def pre(sb, state=state):
            if state == "plainfile":
                open(os.path.join(sb, "out"), "w").write("not a directory\n")
            elif state == "present":
                os.makedirs(os.path.join(sb, "out"))
        w = scratch.new()
        r = worlds.compile_world(binfo, w, {"x.as": worlds.HELLO}, ["-R", "out"] + fl, ["x.as"], cpu=60, pre=pre)
        vsim.cleanup_world(w)
        desc = "aldor -R out %s x.as (out is %s)" % (" ".join(fl), state)
        verdict, detail = None, ""
        fc = worlds.fault_class(r)
        esc = vsim.parse_log(r.log)["escapes"]
        if fc:
            verdict, detail = fc, (r.out + r.err)[-200:].decode("latin-1", "replace")
        elif esc:
            verdict, detail = "output-escaped", "tried to create " + ", ".join(esc[:3])
        elif r.rc == 0:
            want = ["out/x.ao", "out/x.fm", "out/x.c", "out/x.lsp", "out/aldorcode/x.java"]
            missing = [x for x in want if not r.files.get(x)]
            if missing:
                verdict, detail = "exit0-missing-output", "exit 0 but %s not written (have %s)" % (", ".join(missing), ", ".join(sorted(r.files)))
        elif not worlds.has_diag(r) and not (r.out + r.err).strip():
            # (a command-line error is reported in plain words, without the (Error) tag of a compilation message)
            verdict, detail = "silent-refusal", "exit %r without a word" % r.rc
        out.append((verdict, detail, desc, "outdir-" + state))
    # an explicit Java name without a directory part
    w = scratch.new()
    r = worlds.compile_world(binfo, w, {"x.as": worlds.HELLO}, ["-Fjava=alt.java", "-Fc"], ["x.as"], cpu=60)
    vsim.cleanup_world(w)
    esc = vsim.parse_log(r.log)["escapes"]
    verdict, detail = None, ""
    fc = worlds.fault_class(r)
    if fc:
        verdict, detail = fc, (r.out + r.err)[-200:].decode("latin-1", "replace")
    elif esc:
        verdict, detail = "output-escaped", "tried to create " + ", ".join(esc[:3])
    elif r.rc == 0 and not any(k.endswith(".java") for k in r.files):
        verdict, detail = "exit0-missing-output", "exit 0 but no .java file written (have %s)" % ", ".join(sorted(r.files))
    out.append((verdict, detail, "aldor -Fjava=alt.java -Fc x.as", "outdir-javaname"))
    return out


def split_name_cases(binfo, scratch):
    """No injected fault: the parts of a split C output (-Csmax) are named from the first five letters
    of the unit plus a number.  The number of C files written must not depend on what the unit is
    called, nor on what else is compiled in the same invocation."""
    out = []
    try:
        src = open(os.path.join(worlds.AXLLIB_TEST, "array1", "array1.as"), "rb").read()
    except OSError:
        return out
    fl = ["-Csmax=10", "-Fc"]

    def ncfiles(files, srcs):
        w = scratch.new()
        r = worlds.compile_world(binfo, w, files, fl, srcs, cpu=60)
        vsim.cleanup_world(w)
        return r, sorted(k for k in r.files if k.endswith(".c"))
    r0, base = ncfiles({"zzzzz.as": src}, ["zzzzz.as"])
    if r0.rc != 0 or len(base) < 3:
        return out
    for name in ("abcde001.as", "abcde%03d.as" % (len(base) - 1)):
        r, got = ncfiles({name: src}, [name])
        desc = "aldor %s %s" % (" ".join(fl), name)
        verdict, detail = None, ""
        fc = worlds.fault_class(r)
        if fc:
            verdict, detail = fc, (r.out + r.err)[-200:].decode("latin-1", "replace")
        elif r.rc == 0 and len(got) != len(base):
            verdict, detail = "exit0-missing-output", "exit 0 with %d C files where the same source under another name gives %d (%s)" % (len(got), len(base), ", ".join(got))
        out.append((verdict, detail, desc, "splitname-" + name[:-3]))
    # two units whose names share their first five letters, one invocation
    r, got = ncfiles({"share1.as": src, "share2.as": src}, ["share1.as", "share2.as"])
    verdict, detail = None, ""
    fc = worlds.fault_class(r)
    if fc:
        verdict, detail = fc, (r.out + r.err)[-200:].decode("latin-1", "replace")
    elif r.rc == 0 and len(got) != 2 * len(base):
        verdict, detail = "exit0-missing-output", "exit 0 with %d C files for two units that give %d each when compiled under names of their own" % (len(got), len(base))
    out.append((verdict, detail, "aldor %s share1.as share2.as" % " ".join(fl), "splitname-shared-prefix"))
    return out


def mixed_input_cases(binfo, scratch):
    """No injected fault: a saved form and a source in ONE invocation, in both orders; on exit 0
    every requested kind must exist for the source unit (and those a saved form can give, for it)."""
    out = []
    y = b'#include "axllib"\nprint << "yo" << newline;\n'
    kinds = ["ao", "fm", "c", "lsp", "java"]
    for saved, order in (("ao", 0), ("ao", 1), ("fm", 0), ("fm", 1)):
        w = scratch.new()
        worlds.compile_world(binfo, w, {"x.as": worlds.HELLO}, ["-Fao", "-Ffm"], ["x.as"], cpu=60)
        sb = os.path.join(w, "sb")
        for f in os.listdir(sb):
            if f not in ("x.as", "x." + saved):
                os.unlink(os.path.join(sb, f))
        os.unlink(os.path.join(sb, "x.as"))
        srcs = ["x." + saved, "y.as"] if order == 0 else ["y.as", "x." + saved]
        fl = [worlds.OUT_FLAG[c] for c in kinds]
        r = worlds.compile_world(binfo, w, {"y.as": y}, fl, srcs, cpu=60)
        vsim.cleanup_world(w)
        desc = "aldor %s %s" % (" ".join(fl), " ".join(srcs))
        verdict, detail = None, ""
        fc = worlds.fault_class(r)
        if fc:
            verdict, detail = fc, (r.out + r.err)[-200:].decode("latin-1", "replace")
        elif r.rc == 0:
            want = ["y.ao", "y.fm", "y.c", "y.lsp", "aldorcode/y.java", "x.c", "x.lsp", "aldorcode/x.java"]
            missing = [x for x in want if not r.files.get(x)]
            if missing:
                verdict, detail = "exit0-missing-output", "exit 0 but %s not written (have %s)" % (", ".join(missing), ", ".join(sorted(r.files)))
        elif not worlds.has_diag(r):
            verdict, detail = "silent-refusal", "exit %r without a diagnostic" % r.rc
        out.append((verdict, detail, desc, "mixed-%s-%d" % (saved, order)))
    return out


def error_count_cases(binfo, scratch):
    """No injected fault: sources with exactly N reported errors (N around the width of an exit
    status); a compilation that reports errors writes no outputs, so it must not exit 0."""
    out = []
    for n, nfiles in ((255, 1), (256, 1), (512, 1), (128, 2), (257, 1)):
        files = {}
        for f in range(nfiles):
            files["e%d.as" % f] = ('#include "axllib"\n' + "".join("undef%dx%d;\n" % (f, i) for i in range(n))).encode()
        w = scratch.new()
        fl = ["-M", "no-emax", "-Fc", "-Ffm", "-Fao"]
        r = worlds.compile_world(binfo, w, files, fl, sorted(files), cpu=120)
        vsim.cleanup_world(w)
        desc = "aldor %s %s (%d undefined identifiers each)" % (" ".join(fl), " ".join(sorted(files)), n)
        nerr = (r.out + r.err).count(b"(Error)")
        verdict, detail = None, ""
        fc = worlds.fault_class(r)
        if fc:
            verdict, detail = fc, (r.out + r.err)[-200:].decode("latin-1", "replace")
        elif r.rc == 0:
            want = [b + e for b in (x[:-3] for x in files) for e in (".c", ".fm", ".ao")]
            missing = [x for x in want if x not in r.files]
            if missing:
                verdict, detail = "exit0-missing-output", "exit 0 after %d error messages, %s not written" % (nerr, ", ".join(missing))
        elif not worlds.has_diag(r):
            verdict, detail = "silent-refusal", "exit %r without a diagnostic" % r.rc
        out.append((verdict, detail, desc, "errors-%dx%d" % (n, nfiles)))
    return out


def single_kind_cases(binfo, scratch):
    """No injected fault: each output kind requested ALONE (and the front-end kinds in pairs); exit 0
    needs the file.  (With all kinds requested at once a kind can be produced as a side effect of
    another one's phases.)"""
    out = []
    ref = {"ai": "x.ai", "ap": "x.ap", "asy": "x.asy", "ao": "x.ao", "fm": "x.fm", "lsp": "x.lsp", "c": "x.c",
           "java": "aldorcode/x.java", "main": "x-aldormain.c"}
    combos = [[k] for k in ALL] + [["ai", "asy"], ["ap", "asy"], ["ai", "ap"], ["asy", "main"]]
    for kinds in combos:
        fl = [worlds.OUT_FLAG[c] for c in kinds]
        w = scratch.new()
        r = worlds.compile_world(binfo, w, {"x.as": worlds.HELLO}, fl, ["x.as"], cpu=60)
        vsim.cleanup_world(w)
        desc = "aldor %s x.as" % " ".join(fl)
        verdict, detail = None, ""
        fc = worlds.fault_class(r)
        if fc:
            verdict, detail = fc, (r.out + r.err)[-200:].decode("latin-1", "replace")
        elif r.rc == 0:
            missing = [ref[c] for c in kinds if not r.files.get(ref[c])]
            if missing:
                verdict, detail = "exit0-missing-output", "exit 0 but %s not written (have %s)" % (", ".join(missing), ", ".join(sorted(r.files)))
        elif not worlds.has_diag(r) and not (r.out + r.err).strip():
            verdict, detail = "silent-refusal", "exit %r without a word" % r.rc
        out.append((verdict, detail, desc, "single-" + "+".join(kinds)))
    return out


def mixed_success_cases(binfo, scratch):
    """No injected fault: one file of the invocation is rejected, the other compiles; the rejected
    unit's outputs are not written, so the exit status must not be 0 - whichever comes first."""
    out = []
    bad = b'#include "axllib"\nundefinedname1;\n'
    for order in (("bad.as", "good.as"), ("good.as", "bad.as")):
        w = scratch.new()
        fl = ["-Fc", "-Ffm", "-Fao"]
        r = worlds.compile_world(binfo, w, {"bad.as": bad, "good.as": worlds.HELLO}, fl, list(order), cpu=60)
        vsim.cleanup_world(w)
        desc = "aldor %s %s (bad.as has one error)" % (" ".join(fl), " ".join(order))
        verdict, detail = None, ""
        fc = worlds.fault_class(r)
        if fc:
            verdict, detail = fc, (r.out + r.err)[-200:].decode("latin-1", "replace")
        elif r.rc == 0:
            missing = [x for x in ("bad.c", "bad.fm", "bad.ao", "good.c", "good.fm", "good.ao") if not r.files.get(x)]
            if missing:
                verdict, detail = "exit0-missing-output", "exit 0 but %s not written" % ", ".join(missing)
        elif not worlds.has_diag(r):
            verdict, detail = "silent-refusal", "exit %r without a diagnostic" % r.rc
        elif not r.files.get("good.c") and order[0] == "good.as":
            pass	# (stopping at the first error is allowed; nothing to check)
        out.append((verdict, detail, desc, "mixedsuccess-" + order[0][:-3]))
    return out


def dirty_directory_cases(binfo, scratch):
    """No injected fault: the compilation runs in a directory that holds the leftovers of an earlier
    build - every output of a full compile, plus object files of the generated C (as `gcc -c' or
    `aldor -Fo' leave them).  Exit 0 needs every requested output, complete, under its own name."""
    out = []
    allk = list(ALL)
    w = scratch.new()
    full = worlds.compile_world(binfo, w, {"x.as": worlds.HELLO}, flags(allk), ["x.as"], cpu=60)
    vsim.cleanup_world(w)
    if full.rc != 0:
        return out
    left = dict(full.files)
    left["x.o"] = b"\x7fELF leftover object\n"
    left["x-aldormain.o"] = b"\x7fELF leftover object\n"
    for kinds in (["c"], ["c", "main"], ["lsp", "fm"], ["ao", "java"], allk):
        fl = flags(kinds)
        wc = scratch.new()
        clean = worlds.compile_world(binfo, wc, {"x.as": worlds.HELLO}, fl, ["x.as"], cpu=60)
        vsim.cleanup_world(wc)
        wd = scratch.new()
        files = dict(left)
        files["x.as"] = worlds.HELLO
        r = worlds.compile_world(binfo, wd, files, fl, ["x.as"], cpu=60, skip_src=False)
        vsim.cleanup_world(wd)
        desc = "aldor %s x.as (in a directory with the leftovers of an earlier full build and x.o, x-aldormain.o)" % " ".join(fl)
        verdict, detail = None, ""
        fc = worlds.fault_class(r)
        if fc:
            verdict, detail = fc, (r.out + r.err)[-200:].decode("latin-1", "replace")
        elif vsim.parse_log(r.log)["escapes"]:
            verdict, detail = "output-escaped", ", ".join(vsim.parse_log(r.log)["escapes"][:3])
        elif r.rc == 0 and clean.rc == 0:
            bad = [k for k, v in clean.files.items() if r.files.get(k) != v]
            if bad:
                verdict, detail = "exit0-missing-output", "exit 0 but %s missing or different from what the same command writes in a clean directory (have %s)" % (", ".join(sorted(bad)), ", ".join(sorted(r.files)))
        elif r.rc != 0 and clean.rc == 0 and not worlds.has_diag(r) and not (r.out + r.err).strip():
            verdict, detail = "silent-refusal", "exit %r without a word" % r.rc
        out.append((verdict, detail, desc, "dirty-" + "+".join(kinds) if len(kinds) < 5 else "dirty-all"))
    return out


def odd_name_cases(binfo, scratch):
    """No injected fault: legal but unusual source file names; exit 0 must leave the outputs
    under the name the compiler derives from the source name."""
    out = []
    for src, arg, base in (("-.as", "./-.as", "-"), ("x.y.as", "x.y.as", "x.y"), ("a b.as", "a b.as", "a b"), ("--.as", "./--.as", "--")):
        w = scratch.new()
        fl = ["-Fc", "-Ffm", "-Fao", "-Flsp"]
        r = worlds.compile_world(binfo, w, {src: worlds.HELLO}, fl, [arg], cpu=60)
        vsim.cleanup_world(w)
        desc = "aldor %s '%s'" % (" ".join(fl), arg)
        verdict, detail = None, ""
        fc = worlds.fault_class(r)
        if fc:
            verdict, detail = fc, (r.out + r.err)[-200:].decode("latin-1", "replace")
        elif r.rc == 0:
            missing = [base + e for e in (".c", ".fm", ".ao", ".lsp") if not r.files.get(base + e)]
            if missing:
                verdict, detail = "exit0-missing-output", "exit 0 but %s not written (have %s)" % (", ".join(missing), ", ".join(sorted(r.files)))
        elif not worlds.has_diag(r):
            verdict, detail = "silent-refusal", "exit %r without a diagnostic" % r.rc
        out.append((verdict, detail, desc, "srcname-" + src))
    return out


def vkey(verdict, plan, detail):
    kinds = "+".join(sorted(set(ev["k"] for ev in plan)))
    cls = "+".join(sorted(set(ev.get("c", "dir") for ev in plan)))
    return "%s:%s:%s" % (verdict, kinds, cls)


def main(argv):
    tier, replay, rest = checklib.parse_args(argv)
    seed = vsim.seed_from_env()
    t0 = time.time()
    binfo = buildlib.build()
    out = checklib.Outcome(PID)
    classes = list(ALL)

    with vsim.Scratch("c18") as scratch:
        if replay and "other_directory" in json.load(open(replay)):
            od = [x for x in other_directory_cases(binfo, scratch) + explicit_name_cases(binfo, scratch) + error_count_cases(binfo, scratch) + odd_name_cases(binfo, scratch) + mixed_input_cases(binfo, scratch) + outdir_cases(binfo, scratch) + split_name_cases(binfo, scratch) + mixed_success_cases(binfo, scratch) + dirty_directory_cases(binfo, scratch) + single_kind_cases(binfo, scratch) if x[3] == json.load(open(replay))["other_directory"]]
            vsim.say("replay: %s" % [(v, d) for v, d, _, _ in od])
            if any(v for v, _, _, _ in od):
                vsim.say("VIOLATION property=%s replay=%s" % (PID, replay))
                return 1
            return 0
        if replay:
            rp = json.load(open(replay))
            text = rp["source"].encode("latin-1") if isinstance(rp["source"], str) else [x.encode("latin-1") for x in rp["source"]]
            ref = reference(binfo, scratch, rp["name"], text, rp["classes"])
            r = run_plan(binfo, scratch, rp["name"], text, rp["classes"], rp["plan"], ref)
            v, d, fired = judge(rp["plan"], r, ref)
            vsim.say("replay: verdict=%s %s" % (v, d))
            if v:
                vsim.say("VIOLATION property=%s replay=%s" % (PID, replay))
                return 1
            return 0

        cands, want = programs(seed, tier)
        refs = vsim.pmap(lambda p: reference(binfo, scratch, p[0], p[1], classes), cands)
        progs = []
        skipped = []
        for (name, text), ref in zip(cands, refs):
            got = sorted(set(worlds.cls_of(k) for k in ref.files))
            if ref.rc == 0 and all(c in got for c in classes) and not ref.timeout and len(progs) < want:
                progs.append((name, text, ref, classes))
            elif len(progs) < want:
                skipped.append(name)
        # second configuration: generated C split into several files plus a header (-Csmax)
        split = ["c", "h", "main"]
        for (name, text, ref, _) in list(progs[:2 if tier == "quick" else 8]):
            r2 = reference(binfo, scratch, name, text, split)
            got = set(worlds.cls_of(k) for k in r2.files)
            if r2.rc == 0 and "h" in got:
                progs.append((name, text, r2, split))
        # configuration with an output directory (-R out): the same faults hit files below it
        outcl = ["R", "ao", "fm", "c", "java"]
        for (name, text, ref, _) in list(progs[:1 if tier == "quick" else 6]):
            r4 = reference(binfo, scratch, name, text, outcl)
            if r4.rc == 0 and any(k.startswith("out/") for k in r4.files):
                progs.append((name, text, r4, outcl))
        # configuration with a SAVED object as input (compSavedFile: another path to the same emitters)
        savedcl = ["fm", "c", "lsp", "java"]
        w6 = scratch.new()
        r6 = worlds.compile_world(binfo, w6, {"sv.as": worlds.HELLO}, ["-Fao"], ["sv.as"], cpu=60)
        vsim.cleanup_world(w6)
        if r6.rc == 0 and "sv.ao" in r6.files:
            r7 = reference(binfo, scratch, "sv.ao", r6.files["sv.ao"], savedcl)
            if r7.rc == 0 and set(savedcl) <= set(worlds.cls_of(k) for k in r7.files):
                progs.append(("sv.ao", r6.files["sv.ao"], r7, savedcl))
        # configuration with the C++ stub generator (-Fc++: <name>_cc.h and <name>_as.as)
        cppcl = ["cpph", "cppas"]
        r5 = reference(binfo, scratch, "cx.as", CPP_SRC, cppcl)
        if r5.rc == 0 and set(cppcl) <= set(worlds.cls_of(k) for k in r5.files):
            progs.append(("cx.as", CPP_SRC, r5, cppcl))
        else:
            skipped.append("cx.as[-Fc++]")
        # third configuration: two files in one invocation, the fault aimed at the SECOND file's output
        multi_cl = ["ao", "fm", "c", "lsp"]
        singles = [p for p in progs if p[3] is classes]
        multi_ix = []
        for k in range(0, min(len(singles) - 1, 2 if tier == "quick" else 10), 1):
            a, b = singles[k], singles[k + 1]
            nm, tx = (a[0], b[0]), (a[1], b[1])
            r3 = reference(binfo, scratch, nm, tx, multi_cl)
            if r3.rc == 0:
                progs.append((nm, tx, r3, multi_cl))
                multi_ix.append(len(progs) - 1)
        cases = []
        for pi, (name, text, ref, cl) in enumerate(progs):
            rng = vsim.Rng(seed, "c18-plans", name if isinstance(name, str) else "+".join(name), "+".join(cl))
            if pi in multi_ix:
                second = name[1][:-3]
                sizes2 = dict((worlds.cls_of(k), len(v)) for k, v in ref.files.items() if os.path.basename(k).startswith(second))
                for c in cl:
                    S = sizes2.get(c, 0)
                    if S <= 0:
                        continue
                    for ev in ({"k": "enospc", "c": c, "a": rng.range(0, S - 1), "nth": 2}, {"k": "eio", "c": c, "a": 1, "nth": 2},
                               {"k": "closefail", "c": c, "a": 28, "nth": 2}, {"k": "openfail", "c": c, "a": 13, "nth": 2},
                               {"k": "enospc", "c": c, "a": rng.range(0, S - 1), "nth": 1}):
                        cases.append((pi, [ev]))
                    if c in ("c", "lsp"):
                        for nth in (1, 2):
                            cases.append((pi, [{"k": "foreign", "c": c, "a": rng.below(3), "nth": nth}]))
                cases.append((pi, []))
                continue
            for plan in gen_plans(rng, ref, cl, tier):
                cases.append((pi, plan))
        # regression corpus: minimised plans of defects found earlier (fixed in /repo)
        import glob
        for f in sorted(glob.glob(os.path.join(vsim.VERIF, "findings", "C18-*", "*.json"))):
            rp = json.load(open(f))
            if rp.get("classes") != classes or not isinstance(rp["source"], str):
                continue
            text = rp["source"].encode("latin-1")
            ref = reference(binfo, scratch, rp["name"], text, classes)
            if ref.rc == 0:
                progs.append((rp["name"], text, ref, classes))
                cases.append((len(progs) - 1, rp["plan"]))
        budget = checklib.Budget(200 if tier == "quick" else 1500)
        results = []
        B = 256
        for b0 in range(0, len(cases), B):
            if budget.over():
                break
            results += vsim.pmap(lambda c: run_plan(binfo, scratch, progs[c[0]][0], progs[c[0]][1], progs[c[0]][3], c[1], progs[c[0]][2]),
                                 cases[b0:b0 + B])
        done = len(results)
        verdicts = []
        configured = {}
        fired_n = {}
        distinct = set()
        for (pi, plan), r in zip(cases[:done], results):
            v, d, fired = judge(plan, r, progs[pi][2])
            verdicts.append((v, d))
            for ev in plan:
                configured[ev["k"]] = configured.get(ev["k"], 0) + 1
            for k, c in fired:
                nm = ["enospc", "eio", "closefail", "openfail", "crash", "mkdirfail"][k]
                fired_n[nm] = fired_n.get(nm, 0) + 1
            for kk in ("dirtarget", "foreign"):
                if any(ev["k"] == kk for ev in plan):
                    fired_n[kk] = fired_n.get(kk, 0) + 1
            if plan and (fired or any(ev["k"] in ("dirtarget", "foreign") for ev in plan)):
                distinct.add((pi, r.log_hash(), json.dumps(plan, sort_keys=True)))

        # determinism sample
        redo_ix = [i for i in range(done) if vsim.Rng(seed, "redo18", i).chance(5, 100)][:60]
        redo = vsim.pmap(lambda i: run_plan(binfo, scratch, progs[cases[i][0]][0], progs[cases[i][0]][1], progs[cases[i][0]][3], cases[i][1], progs[cases[i][0]][2]), redo_ix)
        mism = 0
        for i, r2 in zip(redo_ix, redo):
            if r2.log_hash() != results[i].log_hash() or r2.outcome_hash() != results[i].outcome_hash():
                mism += 1
                out.nondet.append("plan %d: two executions of the same plan differ" % i)

        by_key = {}
        for i, (v, d) in enumerate(verdicts):
            if v:
                by_key.setdefault(vkey(v, cases[i][1], d), []).append(i)
        for key in sorted(by_key):
            ids = by_key[key]
            text = out.classify(key)
            if text is not None:
                out.known.append({"key": key, "text": "%s (%d plans this run)" % (text, len(ids))})
                continue
            # smallest plan, smallest program first; minimise the plan's events
            ids.sort(key=lambda i: (len(cases[i][1]), len(progs[cases[i][0]][1]) if isinstance(progs[cases[i][0]][1], bytes) else 10 ** 6))
            i = ids[0]
            pi, plan = cases[i]
            name, src, ref, pcl = progs[pi]
            want_v = verdicts[i][0]

            def fails(sub):
                rr = run_plan(binfo, scratch, name, src, pcl, sub, ref)
                return judge(sub, rr, ref)[0] == want_v
            if not fails(plan):
                out.nondet.append("plan %d: violation %s did not reproduce" % (i, key))
                continue
            mplan = plan
            if len(plan) > 1:
                mplan, _ = checklib.ddmin(plan, fails, 20)
            rr = run_plan(binfo, scratch, name, src, pcl, mplan, ref)
            v2, d2, _ = judge(mplan, rr, ref)
            rp = vsim.write_replay(PID, "seed%d-p%d" % (seed, i), {
                "property": PID, "seed": seed, "name": name,
                "source": src.decode("latin-1") if isinstance(src, bytes) else [x.decode("latin-1") for x in src], "classes": pcl,
                "plan": mplan, "verdict": v2, "detail": d2, "key": key, "source_key": binfo["key"],
                "fs_history": [" ".join(e) for e in vsim.parse_log(rr.log)["fs"]][:80],
                "other_failing_plans": len(ids) - 1})
            out.violations.append({"key": key, "cls": v2, "detail": d2, "replay": rp})

        # ---- saved forms in another directory (independent expectation, no fault) -----------
        od = other_directory_cases(binfo, scratch) + explicit_name_cases(binfo, scratch) + error_count_cases(binfo, scratch) + odd_name_cases(binfo, scratch) + mixed_input_cases(binfo, scratch) + outdir_cases(binfo, scratch) + split_name_cases(binfo, scratch) + mixed_success_cases(binfo, scratch) + dirty_directory_cases(binfo, scratch) + single_kind_cases(binfo, scratch)
        for verdict, detail, desc, kind in od:
            if not verdict:
                continue
            key = "%s:%s:%s" % (verdict, "explicit-name" if kind.startswith("name-") else "error-count" if kind.startswith("errors-") else "source-name" if kind.startswith("srcname-") else "mixed-inputs" if kind.startswith("mixed-") else "output-directory" if kind.startswith("outdir-") else "split-c-names" if kind.startswith("splitname-") else "mixed-success" if kind.startswith("mixedsuccess-") else "dirty-directory" if kind.startswith("dirty-") else "single-kind" if kind.startswith("single-") else "other-directory-input", kind)
            text = out.classify(key)
            if text is not None:
                out.known.append({"key": key, "text": text})
                continue
            rp = vsim.write_replay(PID, "seed%d-otherdir-%s" % (seed, kind), {"property": PID, "seed": seed, "other_directory": kind,
                                   "command": desc, "verdict": verdict, "detail": detail, "key": key, "source_key": binfo["key"]})
            out.violations.append({"key": key, "cls": verdict, "detail": desc + ": " + detail, "replay": rp})
        wall = time.time() - t0
        cov = {
            "evaluations": done,
            "distinct_nontrivial": len(distinct),
            "rule": "fault plans enumerated per program and output class (ENOSPC at boundary/seeded byte budgets, EIO at a write, failure only at close, failing open, directory in the way, failing mkdir, seeded subsets) plus the fault-free plan; non-trivial = a fault actually fired (F lines of the event log) ; distinct = distinct (program, plan, event-log hash)",
            "samples": [{"program": progs[cases[i][0]][0], "plan": cases[i][1]} for i in range(0, done, max(1, done // 4))][:5],
            "programs": len(progs), "program_names": ["%s[%s]" % (p[0] if isinstance(p[0], str) else "+".join(p[0]), "+".join(p[3])) if len(p[3]) < 5 else p[0] for p in progs], "programs_skipped_not_compiling": skipped,
            "output_classes": classes + ["h (with -Csmax=5, second configuration)", "cpph + cppas (-Fc++)"],
            "other_directory_input_cases": [{"command": d, "verdict": v or "ok"} for v, _, d, _ in od],
            "plans_planned": len(cases), "plans_run": done,
            "faults_configured": configured, "faults_fired": fired_n,
            "fault_free_plans": sum(1 for c in cases[:done] if not c[1]),
            "violating_plans": sum(1 for v, d in verdicts if v), "violation_keys": dict((k, len(v)) for k, v in by_key.items()),
            "known_findings_matched": [k["key"] for k in out.known],
            "determinism_reexecuted": len(redo_ix), "determinism_mismatches": mism,
            "runs_per_hour": int(done / max(wall, 1e-3) * 3600),
            "simulated_time": {"fs_operations": sum(len(vsim.parse_log(r.log)["fs"]) for r in results)},
            "components": vsim.components(), "source_key": binfo["key"],
            "exhaustive": False,
        }
        vsim.write_evidence(PID, tier, seed, "fault_enumeration", cov, wall, violations=len(out.violations),
                            assumptions=["a short count from the simulated disk is what the kernel returns for a write straddling a full device; the next write returns 0/ENOSPC",
                                         "a partial file left behind after a non-zero exit is allowed"])
        vsim.say("C18 %s: %d programs, %d plans, %d violating (%d keys), %d known, %.1fs" %
                 (tier, len(progs), done, cov["violating_plans"], len(by_key), len(out.known), wall))
    return out.report()


if __name__ == "__main__":
    sys.exit(main(sys.argv[1:]))
