"""C17 -- damaged library files are refused, never silently used.

Writer worlds produce valid .ao / .fm (and ar packs an .al) on the simulated
disk, which records the write trace.  The surviving file of a killed writer
(= a truncation), or a file with one substituted byte, is then handed to a
fresh reader world on every route that consumes such files.  Oracle: same
outputs as from the intact file, or a diagnostic and a non-zero exit; never a
fault, an internal-bug report, a hang, a silent refusal or a successful exit
with different output.  See DESIGN.md section 4/C17.
"""
import json
import os
import struct
import subprocess
import sys
import time

import buildlib
import checklib
import vsim
import worlds

PID = "C17"

LIB_SRC = b'''#include "axllib"
Foo: with { bar: SingleInteger -> SingleInteger; baz: () -> String } == add {
	bar(n: SingleInteger): SingleInteger == n*n+1;
	baz(): String == "lx";
}
'''
LIB2_SRC = b'''#include "axllib"
Bar: with { quux: SingleInteger -> SingleInteger; name: () -> String } == add {
	quux(n: SingleInteger): SingleInteger == 3*n+2;
	name(): String == "ly";
}
'''
CLIENT2 = b'''#include "axllib"
#library L "liblxy.al"
import from L;
import from Foo, Bar, SingleInteger;
print << bar 7 << " " << baz() << " " << quux 5 << " " << name() << newline;
'''
CLIENT = b'''#include "axllib"
#library L "%s"
import from L;
import from Foo, SingleInteger;
print << bar 7 << " " << baz() << newline;
'''

# A library whose second member EXTENDS a domain of the first: a client that never names the
# second member still depends on it (losing the member silently changes what `has` answers).
SHAPES_SRC = b'''#include "axllib"
define Labelled: Category == with { label: () -> String };
Shape: with { area: (SingleInteger, SingleInteger) -> SingleInteger } == add {
	area(w: SingleInteger, h: SingleInteger): SingleInteger == w * h;
}
'''
SHAPELABEL_SRC = b'''#include "axllib"
#library ShapesLib "shapes.ao"
import from ShapesLib;
extend Shape: Labelled == add {
	label(): String == "a labelled shape";
}
'''
CLIENT5 = b'''#include "axllib"
#library MineLib "libshape.al"
import from MineLib;
import from Shape, SingleInteger;
describe(T: Type): String == {
	if T has Labelled then label()$T else "unlabelled";
}
print << area(3, 4) << " " << describe Shape << newline;
'''
# A library that the client depends on only INDIRECTLY: the client imports from la.ao, whose domain is
# implemented with a domain of lb.ao; the damaged file is lb.ao.
LB_SRC = b'''#include "axllib"
Base: with { bv: SingleInteger -> SingleInteger; bname: () -> String } == add {
	bv(n: SingleInteger): SingleInteger == n * n + 3;
	bname(): String == "base";
}
'''
LA_SRC = b'''#include "axllib"
#library LB "lb.ao"
import from LB;
Derived: with { dv: SingleInteger -> SingleInteger; dname: () -> String } == add {
	import from Base;
	dv(n: SingleInteger): SingleInteger == bv(n) + 1;
	dname(): String == concat(bname(), "+derived");
}
'''
CLIENT7 = b'''#include "axllib"
#library LA "la.ao"
import from LA;
import from Derived, SingleInteger;
print << dv 5 << " " << dname() << newline;
'''
# route name -> (options, source argument or None for "the subject file itself")
ROUTES = {
    "R1": (["-Fc", "-Ffm", "-Flsp"], None),		# compile a saved .ao
    "R2": (["-Ginterp", "-laxllib"], None),		# interpret a saved .ao
    "R5": (["-Fc", "-Flsp"], None),			# compile a saved .fm
    "R3c": (["-Fc", "-Ffm"], "cl.as"),			# client importing from the .ao
    "R3i": (["-Ginterp"], "cl.as"),
    "R4": (["-Ginterp"], "cl2.as"),			# client importing through the archive
    "R3q": (["-Q3", "-Fc", "-Ffm"], "cl.as"),		# optimising client: inliner reads FOAM from the .ao
    "R6": (["-Ginterp"], "cl3.as"),			# client importing from two members of one archive
    "R6q": (["-Q3", "-Fc"], "cl3.as"),
    "R7": (["-Ginterp"], "cl4.as"),			# archive with a long member name (ar name table)
    "R9": (["-Ginterp"], "cl5.as"),			# archive whose second member extends a domain of the first
    "R9c": (["-Fc", "-Flsp"], "cl5.as"),
    "R9l": (["-lMineLib=shape", "-Ginterp"], "cl6.as"),	# the same archive named on the command line (-l), opened while options are processed
    "R10": (["-Ginterp"], "cl7.as"),			# the damaged file is a library the client needs only through another library
    "R10q": (["-Q3", "-Fc", "-Flsp"], "cl7.as"),
    "R8": (["-Gloop"], "LOOP"),				# the interactive loop reading the file through #library
}
LOOP_SCRIPT = '''#int verbose off
#int timing off
#include "axllib"
#library L "%s"
import from L;
import from Foo, SingleInteger;
print << "@@1:" << bar 7 << " " << baz() << newline;
print << "@@2:" << bar 8 << newline;
'''
SUBST_VALUES = ("x01", "x80", "00", "ff")
COUNT_VALUES = ("dec", "inc", "half")	# for bytes of lengths, offsets and counts: off by one, halved


def subst_byte(b, how):
    if how == "x01":
        return b ^ 0x01
    if how == "x80":
        return b ^ 0x80
    if how.startswith("="):		# an explicit value (if it is the original one, the next one)
        v = int(how[1:], 16)
        return v if v != b else (v + 1) & 0xFF
    if how == "dec":
        return (b - 1) & 0xFF
    if how == "inc":
        return (b + 1) & 0xFF
    if how == "half":
        return b >> 1 if b > 1 else 0x7F
    if how == "00":
        return 0x00 if b != 0 else 0x55
    return 0xFF if b != 0xFF else 0xAA


# ---- valid files ----------------------------------------------------------------
def write_world(binfo, scratch, name, text, plan_extra=(), extra_opts=()):
    w = scratch.new()
    r = worlds.compile_world(binfo, w, {name: text}, list(extra_opts) + ["-Fao", "-Ffm"], [name], plan_extra=plan_extra, cpu=60)
    vsim.cleanup_world(w)
    return r


def ao_regions(data):
    """[(lo, hi, name)] for a valid .ao: header fields, section-table entries
    (named by entry and field; the last used entry is called `last`), sections."""
    regs = [(0, 2, "header.magic"), (2, 10, "header.version"), (10, 12, "header.numsect")]
    try:
        ns = struct.unpack("<H", data[10:12])[0]
        secs = []
        for i in range(17):
            b = 12 + 9 * i
            tag = "unused" if i >= ns else ("last" if i == ns - 1 else "e%d" % i)
            regs += [(b, b + 1, "sectab.%s.name" % tag), (b + 1, b + 5, "sectab.%s.off" % tag), (b + 5, b + 9, "sectab.%s.len" % tag)]
            if i < ns:
                n, off, ln = struct.unpack("<BII", data[b:b + 9])
                secs.append((off, off + ln, "payload.s%d" % n))
        regs += secs
    except struct.error:
        pass
    return regs


def arhdr_regions(base, tag):
    """the fields of a 60-byte ar member header"""
    out, o = [], base
    for nm, ln in (("name", 16), ("date", 12), ("uid", 6), ("gid", 6), ("mode", 8), ("size", 10), ("fmag", 2)):
        out.append((o, o + ln, "%s.%s" % (tag, nm)))
        o += ln
    return out


def region_of(regs, off, default="payload"):
    for lo, hi, name in regs:
        if lo <= off < hi:
            return name
    return default


def make_subjects(binfo, scratch, seed, tier):
    """Valid files with their routes, aux files, regions and write trace."""
    subjects = []
    progs = [("hello.as", worlds.HELLO)]
    cs = worlds.corpus(max_bytes=2500)
    rng = vsim.Rng(seed, "c17-programs")
    rng.shuffle(cs)
    want = 2 if tier == "quick" else 12
    for n, p, sz in cs[:want * 4]:
        progs.append((n, open(p, "rb").read()))
    # generated programs (the template family shared with C08/C09), small ones first in the list
    import progen
    for g in range(1 if tier == "quick" else 6):
        progs.insert(1 + g, ("gen%02d.as" % g, progen.gen_program(vsim.Rng(seed, "c17-gen", g), size="tiny").encode("latin-1")))
    want += 1 if tier == "quick" else 6
    outs = vsim.pmap(lambda p: write_world(binfo, scratch, p[0], p[1]), progs)
    nprog = 0
    skipped = []
    for (name, text), r in zip(progs, outs):
        base = name[:-3]
        if r.rc != 0 or base + ".ao" not in r.files or base + ".fm" not in r.files or nprog > want:
            skipped.append(name)
            continue
        nprog += 1
        ao, fm = r.files[base + ".ao"], r.files[base + ".fm"]
        trace = [(int(e[2]), int(e[3])) for e in vsim.parse_log(r.log)["fs"] if e[0] == "W" and e[1] == "ao"]
        subjects.append({"kind": "ao", "file": base + ".ao", "data": ao, "aux": {}, "routes": ["R1", "R2"],
                         "regions": ao_regions(ao), "trace": trace, "prog": name, "source": text})
        subjects.append({"kind": "fm", "file": base + ".fm", "data": fm, "aux": {}, "routes": ["R5"],
                         "regions": [(0, len(fm), "text")], "trace": [], "prog": name, "source": text})
    # an object with debug positions (-Zdb): two more, optional, sections at the end
    rdb = write_world(binfo, scratch, "hellodb.as", worlds.HELLO, extra_opts=["-Zdb"])
    if rdb.rc == 0 and "hellodb.ao" in rdb.files:
        ao = rdb.files["hellodb.ao"]
        trace = [(int(e[2]), int(e[3])) for e in vsim.parse_log(rdb.log)["fs"] if e[0] == "W" and e[1] == "ao"]
        subjects.append({"kind": "ao", "file": "hellodb.ao", "data": ao, "aux": {}, "routes": ["R1", "R2"],
                         "regions": ao_regions(ao), "trace": trace, "prog": "hellodb.as", "source": worlds.HELLO})
        if "hellodb.fm" in rdb.files:		# FOAM text with `;line` position comments
            fm = rdb.files["hellodb.fm"]
            subjects.append({"kind": "fm", "file": "hellodb.fm", "data": fm, "aux": {}, "routes": ["R5"],
                             "regions": [(0, len(fm), "text")], "trace": [], "prog": "hellodb.as", "source": worlds.HELLO})
    # an archive whose member name needs the long-name table of ar
    rl = write_world(binfo, scratch, "averyveryverylongname.as", LIB_SRC)
    if rl.rc == 0 and "averyveryverylongname.ao" in rl.files:
        aol = rl.files["averyveryverylongname.ao"]
        d = scratch.new()
        os.makedirs(d)
        open(os.path.join(d, "averyveryverylongname.ao"), "wb").write(aol)
        subprocess.run(["ar", "crD", "liblong.al", "averyveryverylongname.ao"], cwd=d, check=True)
        all_ = open(os.path.join(d, "liblong.al"), "rb").read()
        vsim.cleanup_world(d)
        m = all_.find(b"/0 ")		# member header that refers to the name table
        if m > 0:
            regs = [(0, 8, "armagic"), (8, 68, "arnamehdr"), (68, m, "arnametable"), ] + arhdr_regions(m, "arhdr") + \
                   [(lo + m + 60, hi + m + 60, "member." + nm) for lo, hi, nm in ao_regions(aol)]
            subjects.append({"kind": "al", "file": "liblong.al", "data": all_, "aux": {"cl4.as": CLIENT % b"liblong.al"},
                             "routes": ["R7"], "regions": regs, "trace": [], "prog": "averyveryverylongname.as", "source": LIB_SRC,
                             "hdr_ranges": [(0, m + 60 + 165)]})
    # library / client pair, and the same library inside an archive
    r = write_world(binfo, scratch, "lx.as", LIB_SRC)
    if r.rc == 0 and "lx.ao" in r.files:
        ao = r.files["lx.ao"]
        trace = [(int(e[2]), int(e[3])) for e in vsim.parse_log(r.log)["fs"] if e[0] == "W" and e[1] == "ao"]
        subjects.append({"kind": "ao", "file": "lx.ao", "data": ao, "aux": {"cl.as": CLIENT % b"lx.ao"},
                         "routes": ["R3c", "R3i", "R3q", "R8"], "regions": ao_regions(ao), "trace": trace, "prog": "lx.as", "source": LIB_SRC})
        d = scratch.new()
        os.makedirs(d)
        open(os.path.join(d, "lx.ao"), "wb").write(ao)
        subprocess.run(["ar", "crD", "liblx.al", "lx.ao"], cwd=d, check=True)
        al = open(os.path.join(d, "liblx.al"), "rb").read()
        vsim.cleanup_world(d)
        regs = [(0, 8, "armagic")] + arhdr_regions(8, "arhdr") + [(lo + 68, hi + 68, "member." + nm) for lo, hi, nm in ao_regions(ao)]
        subjects.append({"kind": "al", "file": "liblx.al", "data": al, "aux": {"cl2.as": CLIENT % b"liblx.al"},
                         "routes": ["R4", "R8"], "regions": regs, "trace": [], "prog": "lx.as", "source": LIB_SRC})
        # an archive with two members
        r2 = write_world(binfo, scratch, "ly.as", LIB2_SRC)
        if r2.rc == 0 and "ly.ao" in r2.files:
            ao2 = r2.files["ly.ao"]
            d = scratch.new()
            os.makedirs(d)
            open(os.path.join(d, "lx.ao"), "wb").write(ao)
            open(os.path.join(d, "ly.ao"), "wb").write(ao2)
            subprocess.run(["ar", "crD", "liblxy.al", "lx.ao", "ly.ao"], cwd=d, check=True)
            al2 = open(os.path.join(d, "liblxy.al"), "rb").read()
            vsim.cleanup_world(d)
            m2 = 68 + len(ao) + (len(ao) & 1)		# second member header (ar pads members to even length)
            regs2 = [(0, 8, "armagic")] + arhdr_regions(8, "arhdr") + \
                    [(lo + 68, hi + 68, "member." + nm) for lo, hi, nm in ao_regions(ao)] + \
                    arhdr_regions(m2, "arhdr2") + \
                    [(lo + m2 + 60, hi + m2 + 60, "member." + nm) for lo, hi, nm in ao_regions(ao2)]
            subjects.append({"kind": "al", "file": "liblxy.al", "data": al2, "aux": {"cl3.as": CLIENT2},
                             "routes": ["R6", "R6q"], "regions": regs2, "trace": [], "prog": "lx.as+ly.as", "source": LIB_SRC,
                             "hdr_ranges": [(0, 68 + 165), (m2, m2 + 60 + 165)]})
    # a library needed only indirectly
    rb = write_world(binfo, scratch, "lb.as", LB_SRC)
    if rb.rc == 0 and "lb.ao" in rb.files:
        aob = rb.files["lb.ao"]
        w = scratch.new()
        ra = worlds.compile_world(binfo, w, {"la.as": LA_SRC, "lb.ao": aob}, ["-Fao"], ["la.as"], cpu=60)
        vsim.cleanup_world(w)
        if ra.rc == 0 and "la.ao" in ra.files:
            trace = [(int(e[2]), int(e[3])) for e in vsim.parse_log(rb.log)["fs"] if e[0] == "W" and e[1] == "ao"]
            subjects.append({"kind": "ao", "file": "lb.ao", "data": aob, "aux": {"cl7.as": CLIENT7, "la.ao": ra.files["la.ao"]},
                             "routes": ["R10", "R10q"], "regions": ao_regions(aob), "trace": trace, "prog": "lb.as", "source": LB_SRC})
    # an archive whose second member extends a domain of the first member
    rs = write_world(binfo, scratch, "shapes.as", SHAPES_SRC)
    if rs.rc == 0 and "shapes.ao" in rs.files:
        ao1 = rs.files["shapes.ao"]
        w = scratch.new()
        rs2 = worlds.compile_world(binfo, w, {"shapelabel.as": SHAPELABEL_SRC, "shapes.ao": ao1}, ["-Fao"], ["shapelabel.as"], cpu=60)
        vsim.cleanup_world(w)
        if rs2.rc == 0 and "shapelabel.ao" in rs2.files:
            ao2 = rs2.files["shapelabel.ao"]
            d = scratch.new()
            os.makedirs(d)
            open(os.path.join(d, "shapes.ao"), "wb").write(ao1)
            open(os.path.join(d, "shapelabel.ao"), "wb").write(ao2)
            subprocess.run(["ar", "crD", "libshape.al", "shapes.ao", "shapelabel.ao"], cwd=d, check=True)
            al3 = open(os.path.join(d, "libshape.al"), "rb").read()
            vsim.cleanup_world(d)
            m1 = 8
            m2 = 68 + len(ao1) + (len(ao1) & 1)
            if al3[m2:m2 + 14] == b"shapelabel.ao/":
                regs3 = [(0, 8, "armagic")] + arhdr_regions(m1, "arhdr") + \
                        [(lo + m1 + 60, hi + m1 + 60, "member." + nm) for lo, hi, nm in ao_regions(ao1)] + \
                        arhdr_regions(m2, "arhdr2") + \
                        [(lo + m2 + 60, hi + m2 + 60, "member." + nm) for lo, hi, nm in ao_regions(ao2)]
                subjects.append({"kind": "al", "file": "libshape.al", "data": al3, "aux": {"cl5.as": CLIENT5, "cl6.as": CLIENT5.replace(b'#library MineLib "libshape.al"\n', b"")},
                                 "routes": ["R9", "R9c", "R9l"], "regions": regs3, "trace": [], "prog": "shapes.as+shapelabel.as", "source": SHAPES_SRC,
                                 "hdr_ranges": [(0, m1 + 60 + 165), (m2 - 2, m2 + 60 + 165)],
                                 "dense": [(m2 + 60, len(al3))], "boundaries": [m2]})
    return subjects, skipped


# ---- damages -----------------------------------------------------------------------
def gen_damages(rng, subj, tier):
    data = subj["data"]
    n = len(data)
    dm = []
    # truncations: every point at which a killed writer can have stopped
    if tier == "thorough" and n <= 65536:
        lens = list(range(0, n))
    else:
        lens = set([0, 1, n - 1, n - 2, n // 2])
        hdr_end = 165 if subj["kind"] == "ao" else (68 + 165 if subj["kind"] == "al" else 64)
        for lo, hi in subj.get("hdr_ranges", []):
            for L in range(lo, min(hi, n)):
                lens.add(L)
        if tier == "thorough":
            for L in range(0, min(n, hdr_end + 1)):
                lens.add(L)
        if subj["kind"] in ("ao", "al"):	# every length inside the header / section table / archive headers
            for L in range(0, min(n, hdr_end + 1)):
                lens.add(L)
        else:
            for L in rng.sample(list(range(0, min(n, hdr_end + 1))), min(24, min(n, hdr_end + 1))):
                lens.add(L)
        for off, ln in subj["trace"]:		# write boundaries and torn writes
            lens.add(off)
            lens.add(off + ln)
            if ln > 1:
                lens.add(off + rng.range(1, ln - 1))
        for lo, hi, nm in subj["regions"]:
            lens.add(lo)
            lens.add(min(n - 1, lo + 1))
            if hi - lo > 4:		# inside and at the very end of every section (sections read lazily included)
                lens.add((lo + hi) // 2)
                lens.add(hi - 1)
                lens.add(lo + rng.range(2, hi - lo - 2))
        for _ in range(40):
            lens.add(rng.below(n))
        for lo, hi in subj.get("dense", []):	# a seeded sample of cuts inside a region of interest
            for _ in range(60):
                lens.add(rng.range(lo, max(lo, min(hi, n) - 1)))
            lens.add(min(hi, n) - 1)
        if subj["kind"] == "fm":
            # text: cut inside and right after the tokens a reader has to finish - string
            # literals, comments, numbers, opening parentheses (a capped, seeded sample of each)
            quotes = [i for i in range(n) if data[i:i + 1] == b'"']
            comments = []
            i = 0
            while True:
                i = data.find(b";", i)
                if i < 0:
                    break
                j = data.find(b"\n", i)
                j = n if j < 0 else j
                comments += list(range(i, min(j + 1, i + 200)))
                i = j + 1
            for q in rng.sample(quotes, min(60, len(quotes))):
                for dlt in (-1, 0, 1, 2, 5):
                    lens.add(q + dlt)
            for c in rng.sample(comments, min(160, len(comments))):
                lens.add(c)
            parens = [i for i in range(n) if data[i:i + 1] == b"("]
            for q in rng.sample(parens, min(30, len(parens))):
                lens.add(q + 1)
        lens = sorted(L for L in lens if 0 <= L < n)
    for L in lens:
        dm.append(("trunc", L, None))
    # single-byte substitutions
    offs = {}
    if subj["kind"] in ("ao", "al"):
        base = 68 if subj["kind"] == "al" else 0
        hdr = list(range(0, base + 165))
        if subj.get("hdr_ranges"):
            hdr = [o for lo, hi in subj["hdr_ranges"] for o in range(lo, hi)]
        for o in hdr:		# every header / section-table / archive-header byte, in every tier
            for v in (SUBST_VALUES if tier == "thorough" else (rng.choice(SUBST_VALUES),)):
                offs[(o, v)] = 1
        # lengths, offsets and counts the reader trusts: the section count and the first and the last
        # used entry of the section table get every value class in every tier (a length that is a
        # little too small is the damage a clamped or skipped end test lets through)
        for lo, hi, nm in subj["regions"]:
            if nm.endswith(("header.numsect", "sectab.last.len", "sectab.last.off", "sectab.e0.len", "sectab.e0.off")):
                for o in range(lo, hi):
                    for v in SUBST_VALUES + COUNT_VALUES:
                        offs[(o, v)] = 1
        # every value of every header / section-table byte: exhaustive for the smallest object file in
        # the thorough tier, a seeded sample of (offset, value) pairs for every object file otherwise
        if subj["kind"] == "ao":
            if tier == "thorough" and subj["file"] == "hello.ao":
                for o in range(0, min(n, 165)):
                    for v in range(256):
                        offs[(o, "=%02x" % v)] = 1
            else:
                for _ in range(60 if tier == "quick" else 600):
                    offs[(rng.below(min(n, 165)), "=%02x" % rng.below(256))] = 1
        # every used section-table NAME byte: the names of the two optional sections (positions, table of
        # positions) and a neighbouring name - a name that turns into another valid one
        for lo, hi, nm in subj["regions"]:
            if ".sectab." in ("." + nm) and nm.endswith(".name") and ".unused." not in nm:
                for v in ("=03", "=04", "dec", "inc"):
                    offs[(lo, v)] = 1
        for lo, hi, nm in subj["regions"]:
            if nm.startswith(("payload.", "member.payload.")):
                for o in range(lo, min(hi, lo + (16 if tier == "thorough" else 4))):
                    offs[(o, rng.choice(SUBST_VALUES))] = 1
        for _ in range(60 if tier == "quick" else 1500):
            offs[(rng.below(n), rng.choice(SUBST_VALUES))] = 1
    else:
        for _ in range(40 if tier == "quick" else 800):
            offs[(rng.below(n), rng.choice(SUBST_VALUES))] = 1
    for (o, v) in sorted(offs):
        if o < n:
            dm.append(("subst", o, v))
    return dm


def apply_damage(data, dmg):
    kind, off, v = dmg
    if kind == "trunc":
        return data[:off]
    b = bytearray(data)
    b[off] = subst_byte(b[off], v)
    return bytes(b)


# ---- reader worlds --------------------------------------------------------------------
def read_world(binfo, scratch, subj, route, data, cpu=20):
    opts, src = ROUTES[route]
    files = dict(subj["aux"])
    files[subj["file"]] = data
    w = scratch.new()
    if src == "LOOP":
        os.makedirs(w, exist_ok=True)
        with open(os.path.join(w, "script"), "w") as f:
            f.write(LOOP_SCRIPT % subj["file"])
        r = worlds.compile_world(binfo, w, files, opts, [], plan_extra=["sbrk cap %d" % (512 << 20), "stdin ../script"], cpu=cpu)
    else:
        r = worlds.compile_world(binfo, w, files, opts, [src or subj["file"]], plan_extra=["sbrk cap %d" % (512 << 20)], cpu=cpu)
    vsim.cleanup_world(w)
    return r


def arena_peak(r):
    """bytes of heap the reader world obtained from the simulated OS"""
    peak = 0
    for t in vsim.parse_log(r.log)["sbrk"]:
        # B callIx incr relAddr ok
        if len(t) >= 5 and t[4] == "ok":
            try:
                peak = max(peak, int(t[3]) + max(0, int(t[2])))
            except ValueError:
                pass
    return peak


RUNAWAY = 200 << 20


def judge(r, ref, route=None):
    fc = worlds.fault_class(r)
    if fc:
        return fc
    # A reader that eats hundreds of megabytes over a file of a few kilobytes is in a loop that only
    # the simulated arena's cap ends (without the cap: a fault or a hang).  One refused huge request
    # - a garbage length - does not grow the arena and is an ordinary refusal.
    if arena_peak(r) > RUNAWAY and arena_peak(ref) < RUNAWAY // 4:
        return "runaway"
    if r.rc == 0:
        if r.files == ref.files and r.out == ref.out:
            return None
        if route == "R8":
            # The loop is a session of compilations: a step that refuses the file reports it and
            # the session goes on, its exit status says nothing about one step.  Refusal here =
            # a diagnostic was printed and no value was computed that the intact file would not
            # have produced (a value line that is missing is a refused step; all value lines
            # present and right, plus a diagnostic, is the intact result with a complaint).
            vals = [l for l in r.out.split(b"\n") if b"@@" in l]
            refvals = [l for l in ref.out.split(b"\n") if b"@@" in l]
            if worlds.has_diag(r) and all(v in refvals for v in vals):
                return None
        return "silent-wrong"
    if worlds.has_diag(r):
        return None
    return "silent-refusal"


def vkey(subj, dmg, cls):
    reg = "eof" if dmg[0] == "trunc" and dmg[1] >= len(subj["data"]) else region_of(subj["regions"], min(dmg[1], len(subj["data"]) - 1))
    if dmg[0] == "trunc" and dmg[1] in subj.get("boundaries", ()):
        reg = "member-boundary"	# what is left is a well-formed archive with fewer members
    return "%s:%s:%s:%s" % (subj["kind"], dmg[0], reg, cls)


def main(argv):
    tier, replay, rest = checklib.parse_args(argv)
    seed = vsim.seed_from_env()
    t0 = time.time()
    binfo = buildlib.build()
    out = checklib.Outcome(PID)

    with vsim.Scratch("c17") as scratch:
        if replay:
            rp = json.load(open(replay))
            subj = {"kind": rp["kind"], "file": rp["file"], "data": bytes.fromhex(rp["valid_hex"]),
                    "aux": dict((k, v.encode("latin-1")) for k, v in rp["aux"].items()), "regions": []}
            ref = read_world(binfo, scratch, subj, rp["route"], subj["data"])
            r = read_world(binfo, scratch, subj, rp["route"], apply_damage(subj["data"], tuple(rp["damage"])))
            cls = judge(r, ref, rp["route"])
            vsim.say("replay: class=%s rc=%r %s" % (cls, r.rc, (r.out + r.err)[-200:].decode("latin-1", "replace").replace("\n", " | ")))
            if cls:
                vsim.say("VIOLATION property=%s replay=%s" % (PID, replay))
                return 1
            return 0

        subjects, skipped = make_subjects(binfo, scratch, seed, tier)
        # reference (intact file) on every route
        pairs = [(si, rt) for si, s in enumerate(subjects) for rt in s["routes"]]
        refs = dict(zip(pairs, vsim.pmap(lambda p: read_world(binfo, scratch, subjects[p[0]], p[1], subjects[p[0]]["data"], cpu=60), pairs)))
        bad_refs = [p for p in pairs if refs[p].rc != 0 or worlds.fault_class(refs[p])]
        pairs = [p for p in pairs if p not in bad_refs]
        cases = []
        for (si, rt) in pairs:
            rng = vsim.Rng(seed, "c17-damage", subjects[si]["file"], rt)
            for dmg in gen_damages(rng, subjects[si], tier):
                cases.append((si, rt, dmg))
        # a wall-clock budget must thin the cases evenly, not drop the subjects that come last
        vsim.Rng(seed, "c17-order").shuffle(cases)
        budget = checklib.Budget(240 if tier == "quick" else 2400)
        results = []
        B = 1024
        for b0 in range(0, len(cases), B):
            if budget.over():
                break
            results += vsim.pmap(lambda c: read_world(binfo, scratch, subjects[c[0]], c[1], apply_damage(subjects[c[0]]["data"], c[2])),
                                 cases[b0:b0 + B])
        done = len(results)
        verd = [judge(r, refs[(c[0], c[1])], c[1]) for c, r in zip(cases[:done], results)]

        # crash states of the real writer (explored, reported, not gated: they are not
        # truncations of the valid file because the header is written last)
        crash_hist = {}
        crash_n = 0
        for si, s in enumerate(subjects):
            if s["kind"] != "ao" or not s["trace"] or "R1" not in s["routes"]:
                continue
            plans = []
            for k, (off, ln) in enumerate(s["trace"], 1):
                plans.append((k, 0))
                plans.append((k, max(1, ln // 2)))
            plans = plans[:40]

            def crash_then_read(pl, s=s):
                w = write_world(binfo, scratch, s["prog"], s["source"], plan_extra=["fs crash ao %d %d" % pl])
                surv = w.files.get(s["file"])
                if surv is None:
                    return "no-file"
                r = read_world(binfo, scratch, s, "R1", surv)
                return judge(r, refs[(si, "R1")]) or ("same" if r.rc == 0 else "refused")
            for c in vsim.pmap(crash_then_read, plans):
                crash_hist[c] = crash_hist.get(c, 0) + 1
                crash_n += 1
            break

        # determinism sample
        redo_ix = [i for i in range(done) if vsim.Rng(seed, "redo17", i).chance(2, 100)][:80]
        redo = vsim.pmap(lambda i: read_world(binfo, scratch, subjects[cases[i][0]], cases[i][1], apply_damage(subjects[cases[i][0]]["data"], cases[i][2])), redo_ix)
        mism = 0
        for i, r2 in zip(redo_ix, redo):
            if r2.outcome_hash() != results[i].outcome_hash() or r2.log_hash() != results[i].log_hash():
                mism += 1
                out.nondet.append("case %d: two executions of the same reader world differ" % i)

        by_key = {}
        for i, v in enumerate(verd):
            if v:
                by_key.setdefault(vkey(subjects[cases[i][0]], cases[i][2], v), []).append(i)
        for key in sorted(by_key):
            ids = by_key[key]
            text = out.classify(key)
            if text is not None:
                out.known.append({"key": key, "text": "%s (%d cases this run)" % (text, len(ids))})
                continue
            i = ids[0]
            si, rt, dmg = cases[i]
            s = subjects[si]
            r2 = read_world(binfo, scratch, s, rt, apply_damage(s["data"], dmg))
            v2 = judge(r2, refs[(si, rt)], rt)
            if v2 != verd[i]:
                out.nondet.append("case %d: violation %s did not reproduce (%s)" % (i, key, v2))
                continue
            rp = vsim.write_replay(PID, "seed%d-c%d" % (seed, i), {
                "property": PID, "seed": seed, "kind": s["kind"], "file": s["file"], "route": rt, "damage": list(dmg),
                "valid_hex": s["data"].hex(), "aux": dict((k, v.decode("latin-1")) for k, v in s["aux"].items()),
                "class": v2, "key": key, "rc": r2.rc, "source_key": binfo["key"],
                "output_tail": (r2.out + r2.err)[-400:].decode("latin-1", "replace"),
                "other_failing_cases": len(ids) - 1})
            out.violations.append({"key": key, "cls": v2, "detail": "route %s damage %s on %s (%d cases)" % (rt, dmg, s["file"], len(ids)), "replay": rp})

        wall = time.time() - t0
        hist = {}
        for c, v in zip(cases[:done], verd):
            k = "%s:%s:%s" % (subjects[c[0]]["kind"], c[2][0], v or "ok")
            hist[k] = hist.get(k, 0) + 1
        distinct = set((c[0], c[1], c[2]) for c in cases[:done])
        cov = {
            "evaluations": done,
            "distinct_nontrivial": len(distinct),
            "rule": "damages = truncation lengths (write boundaries and torn lengths of the recorded writer trace, every header length, region starts, seeded; thorough: every length) and single-byte substitutions (header, section table, archive headers, first bytes of every section, seeded payload offsets) of valid .ao/.fm/.al files, each run on every reading route; distinct = distinct (file, route, damage); every one is non-trivial (the file differs from the valid one)",
            "samples": [{"file": subjects[c[0]]["file"], "route": c[1], "damage": list(c[2])} for c in cases[:done:max(1, done // 5)]][:6],
            "files": [{"file": s["file"], "kind": s["kind"], "bytes": len(s["data"]), "routes": s["routes"]} for s in subjects],
            "programs_skipped": skipped, "routes_dropped_reference_failed": [[subjects[p[0]]["file"], p[1]] for p in bad_refs],
            "cases_planned": len(cases), "cases_run": done,
            "verdict_histogram": hist,
            "violation_keys": dict((k, len(v)) for k, v in by_key.items()),
            "known_findings_matched": [k["key"] for k in out.known],
            "writer_crash_states_explored_not_gated": {"worlds": crash_n, "reader_verdicts": crash_hist},
            "determinism_reexecuted": len(redo_ix), "determinism_mismatches": mism,
            "runs_per_hour": int(done / max(wall, 1e-3) * 3600),
            "components": vsim.components(), "source_key": binfo["key"],
            "exhaustive": False,
        }
        vsim.write_evidence(PID, tier, seed, "fault_enumeration", cov, wall, violations=len(out.violations),
                            assumptions=["the allocator's out-of-memory exit on a garbage length counts as a refusal (diagnostic + non-zero exit)",
                                         "write-order crash states of an .ao are explored but not gated: the property speaks of truncations and single-byte differences"])
        vsim.say("C17 %s: %d files, %d cases, %d violating (%d keys), %d known keys, %.1fs" %
                 (tier, len(subjects), done, sum(1 for v in verd if v), len(by_key), len(out.known), wall))
    return out.report()


if __name__ == "__main__":
    sys.exit(main(sys.argv[1:]))
