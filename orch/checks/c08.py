"""C08 -- compiler output is a function of its input only.

The same sources and options are compiled in a reference world and in
perturbed worlds that differ only in things that are not input: collection
schedule (natural, off, forced at seeded allocation indices), heap base,
stack displacement, environment size and junk variables, fill pattern of
fresh/freed storage, clock, pid, working-directory depth, batching of several
files in one invocation, repetition.  Oracle: byte-equal outputs, diagnostics
and exit status.  See DESIGN.md section 4/C08.
"""
import json
import os
import re
import sys
import time

import buildlib
import checklib
import vsim
import worlds
import progen

PID = "C08"
OUTS = ["ao", "fm", "c", "lsp", "java", "asy", "ap", "ai"]
QLEVELS = ["-Q0", "-Q1", "-Q2", "-Q3", "-Q5", "-Q9"]
CANON_BASE = "200000000000"
BASES = ["31000000b000", "100000000000", "2aaa00007000", "7000000ff000", "123456789000", "0000a0000000",
         "5fff00003000", "10000001d000", "3000000f1000"]
FILLS = [("AA", "DD"), ("55", "22"), ("00", "FF"), ("FF", "00")]
JUNK = ["TERM", "HOME", "USER", "LANG", "LC_ALL", "TZ", "TMPDIR", "COLUMNS", "LINES", "SHELL", "EDITOR", "XJUNK1", "XJUNK2"]


def gen_opts(rng):
    q = rng.choice(QLEVELS)
    k = rng.range(2, len(OUTS))
    outs = rng.sample(OUTS, k)
    if "ao" not in outs and rng.chance(1, 2):
        outs.append("ao")
    extra = []
    if "c" in outs and rng.chance(1, 4):
        extra.append("-Csmax=%d" % rng.choice([1, 5, 50]))	# split C: several .c files and a .h
    if rng.chance(1, 4):
        extra.append("-Fmain")
    if rng.chance(1, 6):
        extra.append("-Wcheck")		# the compiler's own assertions and washing: input, same in R0 and Ri
    if rng.chance(1, 6):
        extra += ["-Z", "db"]		# debug positions in the saved forms and the generated code
    if rng.chance(1, 4):		# single optimisations switched off / inliner limits: other paths through the optimiser
        for o in rng.sample(["inline", "cfold", "hfold", "deadvar", "dassign", "peep", "cprop", "cse", "cast", "env", "emerge", "flow"], rng.range(1, 3)):
            extra.append("-Qno-" + o)
    if rng.chance(1, 6):
        extra.append("-Qinline-limit=%d" % rng.choice([2, 10, 40]))
    return [q] + extra + [worlds.OUT_FLAG[o] for o in sorted(outs)]


def gen_perturbation(rng, nalloc):
    """A perturbed plan as a dict of dimensions; absent dimension = canonical."""
    p = {}
    dims = ["gc", "heapbase", "stackpad", "envpad", "wash", "clock", "pid", "env", "cwd", "gcenv", "inodes", "image", "mmaps"]
    on = [d for d in dims if rng.chance(1, 2)]
    if not on:
        on = [rng.choice(dims)]
    if "gc" in on:
        mode = rng.weighted([("forced", 6), ("nogc", 1), ("wgc", 1)])
        if mode == "forced":
            shape = rng.weighted([("per", 4), ("win", 3), ("hash", 2), ("at", 1)])
            total = max(1, nalloc)
            if shape == "per":
                k = rng.loguniform(max(1, total // 400), total)
                p["gc"] = ["gc per %d %d" % (k, rng.below(k))]
            elif shape == "win":
                p["gc"] = ["gc win %d %d" % (rng.below(total), rng.loguniform(1, 300)) for _ in range(rng.range(1, 3))]
            elif shape == "hash":
                bits = max(0, total.bit_length() - rng.range(6, 9))
                p["gc"] = ["gc hash %d %d" % (bits, rng.below(1 << 30))]
            else:
                p["gc"] = ["gc at %d" % rng.below(total) for _ in range(rng.range(1, 40))]
            p["gc"].append("gc cap %d" % rng.choice([50, 200, 400]))
        elif mode == "nogc":
            p["gcopt"] = "-Wno-gc"
        else:
            p["gcopt"] = "-Wgc"
    if "heapbase" in on:
        if rng.chance(1, 2):
            p["heapbase"] = rng.choice(BASES)
        else:
            p["heapbase"] = "%x" % ((0x100000000 + rng.below(0x6fff00000000)) & ~0xfff)
    if "stackpad" in on:
        p["stackpad"] = rng.range(1, 65536)
    if "envpad" in on:
        p["envpad"] = rng.range(1, 4096)
    if "wash" in on:
        if rng.chance(3, 4):
            p["wash"] = "wash on %s %s" % rng.choice(FILLS)
        else:
            p["wash"] = "wash off"
    if "clock" in on:
        p["clock"] = "clock %d" % rng.range(0, 2000000000)
        if rng.chance(1, 2):
            p["clock"] += " jump %d %d" % (rng.range(1, 10), rng.range(-100000, 100000))
    if "pid" in on:
        p["pid"] = rng.range(2, 4000000)
    if "env" in on:
        e = {}
        for v in rng.sample(JUNK, rng.range(1, 6)):
            e[v] = rng.choice(["", "xterm", "/nonexistent", "de_DE.UTF-8", "C", "dumb", "80", "/tmp", "vt100", "x" * rng.range(1, 200)])
        p["env"] = e
    if "cwd" in on:
        p["cwd"] = "/".join(rng.choice(["a", "bb", "ccc", "d.d", "e e"]) for _ in range(rng.range(1, 4)))
    if "inodes" in on:
        p["inodes"] = rng.choice(["collide16", "collide16", "collide8", "huge"])
    if "image" in on:
        p["image"] = "b"	# the same objects linked at another address
    if "mmaps" in on:
        p["mmaps"] = rng.choice([3, 26, 40, 200])	# further writable mappings in the process
    if "gcenv" in on:
        e = {}
        for v, vals in (("GC_GEFN", ["1", "3", "7"]), ("GC_GEFD", ["10", "8"]), ("GC_GGFN", ["12", "14", "20"]), ("GC_GGFD", ["10"]), ("GC_FRUGAL", ["1"])):
            if rng.chance(1, 3):
                e[v] = rng.choice(vals)
        if e:
            p["gcenv"] = e
    return p


def plan_lines(p):
    out = ["heapbase " + p.get("heapbase", CANON_BASE)]
    if "stackpad" in p:
        out.append("stackpad %d" % p["stackpad"])
    if "wash" in p:
        out.append(p["wash"])
    if "clock" in p:
        out.append(p["clock"])
    if "pid" in p:
        out.append("pid %d" % p["pid"])
    out += p.get("gc", [])
    if "inodes" in p:
        out.append("fs inodes " + p["inodes"])
    if "mmaps" in p:
        out.append("mmaps %d" % p["mmaps"])
    return out


BANNER = re.compile(rb"\n[^\n:]+:\n")


def run_compile(binfo, scratch, files, opts, srcs, p, cpu=120, pre=()):
    """One compiler world under perturbation p (dict).  Returns WorldResult with
    files keyed relative to the directory the compiler ran in."""
    w = scratch.new()
    sub = p.get("cwd")
    sb = os.path.join(w, "sb")
    run_dir = os.path.join(sb, sub) if sub else sb
    os.makedirs(run_dir, exist_ok=True)
    for n, data in files.items():
        with open(os.path.join(run_dir, n), "wb") as f:
            f.write(data)
    env = {}
    env.update(p.get("env", {}))
    env.update(p.get("gcenv", {}))
    o = list(opts)
    if "gcopt" in p:
        o = [p["gcopt"]] + o
    plan = ["fs root " + sb] + plan_lines(p)
    argv = [binfo["aldor_b" if p.get("image") == "b" and binfo.get("aldor_b") else "aldor"]] + list(pre) + buildlib.aldor_args() + o + list(srcs)
    r = vsim.run_world(binfo, argv, plan, w, cwd=run_dir, env=env, cpu=cpu, envpad=p.get("envpad", 0), collect=False)
    r.files = vsim.collect_files(run_dir, skip=tuple(files.keys()))
    vsim.cleanup_world(w)
    return r


def differs(r, ref, batch_norm=False):
    """List of what differs between r and the reference."""
    d = []
    if r.timeout and not ref.timeout:
        return ["hang"]
    if r.rc != ref.rc:
        d.append("exit")
    a, b = r.out, ref.out
    if a != b:
        d.append("stdout")
    if r.err != ref.err:
        d.append("stderr")
    for k in sorted(set(r.files) | set(ref.files)):
        if r.files.get(k) != ref.files.get(k):
            d.append(worlds.cls_of(k))
    return sorted(set(d))


def dims_of(p):
    return sorted(k for k in p if k != "gc_cap")


def main(argv):
    tier, replay, rest = checklib.parse_args(argv)
    seed = vsim.seed_from_env()
    t0 = time.time()
    binfo = buildlib.build()
    out = checklib.Outcome(PID)

    with vsim.Scratch("c08") as scratch:
        if replay:
            rp = json.load(open(replay))
            files = dict((k, v.encode("latin-1")) for k, v in rp["files"].items())
            if rp.get("batch") and rp.get("unit") is None:
                ref = run_compile(binfo, scratch, files, rp["opts"], rp["srcs"], {}, pre=rp.get("pre", ()))
                r = run_compile(binfo, scratch, files, rp["opts"], rp["srcs"], rp["perturbation"], pre=rp.get("pre", ()))
                d = differs(r, ref)
            elif rp.get("batch"):
                ref = run_compile(binfo, scratch, files, rp["opts"], [rp["unit"]], {}, pre=rp.get("pre", ()))
                r = run_compile(binfo, scratch, files, rp["opts"], rp["srcs"], rp["perturbation"], pre=rp.get("pre", ()))
                unit = rp["unit"][:-3]
                rf = dict((k, v) for k, v in r.files.items() if os.path.basename(k).split(".")[0].split("-")[0] == unit)
                d = [worlds.cls_of(k) for k in sorted(set(rf) | set(ref.files)) if rf.get(k) != ref.files.get(k)]
            else:
                ref = run_compile(binfo, scratch, files, rp["opts"], rp["srcs"], {}, pre=rp.get("pre", ()))
                r = run_compile(binfo, scratch, files, rp["opts"], rp["srcs"], rp["perturbation"], pre=rp.get("pre", ()))
                d = differs(r, ref)
            vsim.say("replay: differs=%s" % d)
            if d:
                vsim.say("VIOLATION property=%s replay=%s" % (PID, replay))
                return 1
            return 0

        # ---- workload ------------------------------------------------------
        nprog = 30 if tier == "quick" else 150
        nplans = 10 if tier == "quick" else 24
        ngen = 15 if tier == "quick" else 120
        cs = worlds.corpus(max_bytes=8000)
        rng0 = vsim.Rng(seed, "c08-programs")
        rng0.shuffle(cs)
        cands = [("hello.as", worlds.HELLO, "corpus")]
        # workload hint: corpus programs known to print several diagnostics (validated per run)
        try:
            talk_names = json.load(open(os.path.join(vsim.VERIF, "orch", "talkative.json")))["programs"]
        except (OSError, ValueError, KeyError):
            talk_names = []
        talk_pick = set(rng0.sample(talk_names, min(len(talk_names), nprog // 2 if tier == "quick" else len(talk_names))))
        cs = [c for c in cs if c[0] in talk_pick] + [c for c in cs if c[0] not in talk_pick]
        for n, pth, sz in cs[:nprog * 3]:
            cands.append((n, open(pth, "rb").read(), "corpus"))
        for g in range(ngen):
            # every block kind appears in some program of every tier: two kinds per program, by rotation
            rot = [b[0] for b in progen.BLOCKS if b[2] > 0]
            src = progen.gen_program(vsim.Rng(seed, "c08-gen", g), size="small",
                                     force=(rot[(2 * g) % len(rot)], rot[(2 * g + 1) % len(rot)]))
            cands.append(("gen%03d.as" % g, src.encode("latin-1"), "generated"))
        # ill-typed variants of generated programs: the diagnostics (lists of candidate meanings and
        # types, their order and positions) are outputs too
        for g in range(4 if tier == "quick" else 40):
            rb = vsim.Rng(seed, "c08-broken", g)
            src = progen.break_program(progen.gen_program(rb.fork("p"), size="tiny"), rb)
            cands.append(("bad%03d.as" % g, src.encode("latin-1"), "generated"))
        # identifiers with escaped bytes above 127, a spread of byte values, through every emitter
        # (all 128 values in one program, and in slices: a value for which an emitter faults in the
        # reference world takes only its slice out of the workload)
        hv = list(range(0x80, 0x100))
        vsim.Rng(seed, "c08-hibyte").shuffle(hv)
        hsl = [hv] + [hv[i::4] for i in range(4)] + ([hv[i::16] for i in range(16)] if tier != "quick" else [])
        for g, vals in enumerate(hsl):
            cands.append(("hibyte%02d.as" % g, progen.hibyte_program(vals).encode("latin-1"), "hibyte"))
        # generated programs split over several local files (main.as includes partN.as)
        AUX = {}
        for g in range(3 if tier == "quick" else 20):
            main, parts = progen.gen_program_parts(vsim.Rng(seed, "c08-parts", g), size="small")
            nm = "inc%03d.as" % g
            pre = "i%03d_" % g
            for k in list(parts):
                main = main.replace('"%s"' % k, '"%s%s"' % (pre, k))
            AUX[nm] = dict((pre + k, v.encode("latin-1")) for k, v in parts.items())
            cands.append((nm, main.encode("latin-1"), "generated"))
        work = []
        for name, text, origin in cands:
            o_ = gen_opts(vsim.Rng(seed, "c08-opts", name))
            if origin == "hibyte":
                o_ = ["-Q%d" % vsim.Rng(seed, "c08-opts", name).below(3), "-Fao", "-Ffm", "-Fc", "-Flsp", "-Fjava", "-Fasy", "-Fap", "-Fc++"]
            if origin == "generated" and (b"throw" in text or b"try" in text):
                o_ = [x for x in o_ if x != "-Fjava"]	# the Java back end does not implement exception handling
            work.append((name, text, origin, o_))

        def files_of(name, text):
            d = {name: text}
            d.update(AUX.get(name, {}))
            return d
        refs = vsim.pmap(lambda w_: run_compile(binfo, scratch, files_of(w_[0], w_[1]), w_[3], [w_[0]], {}), work)
        progs = []
        dropped = []
        ncorpus = 0
        # "identical diagnostics" is a clause of its own: half of the corpus slots go to the
        # candidates whose reference run printed the most messages (several messages at one
        # source position, long message lists), the rest in shuffled order
        ndiag = [len(re.findall(rb"\((?:Warning|Error|Remark|Note)\)", r.out + r.err)) for r in refs]
        order = list(range(len(work)))
        corp = [i for i in order if work[i][2] == "corpus"]
        talk = sorted(corp, key=lambda i: -ndiag[i])[:nprog // 2]
        order = [i for i in order if work[i][2] != "corpus"] + talk + [i for i in corp if i not in talk]
        work = [work[i] for i in order]
        refs = [refs[i] for i in order]
        for w_, ref in zip(work, refs):
            # validated per run: keep what the current tree compiles in the reference configuration
            # ... and what it compiles within modest resources: a reference run that ends at
            # the memory cap or takes tens of seconds would only measure my caps
            if ref.timeout or ref.rc is None or worlds.fault_class(ref) or (ref.cpu if ref.cpu is not None else ref.wall) > 20 or \
               b"Storage allocation error" in ref.out + ref.err or b"Exceeded time limit" in ref.out + ref.err:
                dropped.append(w_[0])
                continue
            if w_[2] == "corpus":
                if ncorpus >= nprog:
                    continue
                ncorpus += 1
            nalloc = vsim.parse_log(ref.log)["z"].get("allocs", 1)
            progs.append({"name": w_[0], "text": w_[1], "origin": w_[2], "opts": w_[3], "ref": ref, "nalloc": nalloc})

        # second stage: the saved forms (.ao / .fm, some with debug positions) of a few programs are
        # inputs themselves - the readers of saved forms are part of "the same sources, the same options"
        saved = []
        for pr in list(progs):
            if len(saved) >= (6 if tier == "quick" else 40) or pr["ref"].rc != 0 or pr["name"] in AUX:
                continue
            base = pr["name"][:-3]
            for ext in (".ao", ".fm"):
                if base + ext in pr["ref"].files and len(saved) < (6 if tier == "quick" else 40):
                    saved.append((base + ext, pr["ref"].files[base + ext]))
        srefs = vsim.pmap(lambda w_: run_compile(binfo, scratch, {w_[0]: w_[1]}, ["-Q2", "-Fc", "-Flsp"], [w_[0]], {}, cpu=60), saved)
        for (n, data), ref in zip(saved, srefs):
            if ref.timeout or ref.rc != 0 or worlds.fault_class(ref):
                continue
            progs.append({"name": n, "text": data, "origin": "saved", "opts": ["-Q2", "-Fc", "-Flsp"], "ref": ref,
                          "nalloc": vsim.parse_log(ref.log)["z"].get("allocs", 1)})

        cases = []
        for pi, pr in enumerate(progs):
            rng = vsim.Rng(seed, "c08-plans", pr["name"])
            cases.append((pi, {}))					# repetition of the reference plan
            for _ in range(nplans - 1):
                cases.append((pi, gen_perturbation(rng, pr["nalloc"])))
            if pr["origin"] == "hibyte":
                # what lies beside an emitter's tables moves with the image and the heap
                for hb in BASES:
                    cases.append((pi, {"heapbase": hb}))
                cases.append((pi, {"image": "b"}))
                cases.append((pi, {"image": "b", "heapbase": rng.choice(BASES), "gcenv": {"GC_FRUGAL": "1"}}))
                for fl in FILLS:
                    cases.append((pi, {"wash": "wash on %s %s" % fl}))
        # "forced to run at every opportunity": a small program compiled with a collection at EVERY
        # allocation - as consecutive dense blocks in separate worlds (every allocation index collects in
        # one of them), and in the thorough tier also as one world that collects at each of its
        # allocations from the first to the last
        every_n = 0
        eopts = ["-Q2", "-Fao", "-Ffm", "-Fc", "-Flsp", "-Fjava", "-Fasy", "-Fap", "-Fai"]
        eref = run_compile(binfo, scratch, {"every.as": worlds.HELLO}, eopts, ["every.as"], {})
        if eref.rc == 0 and not eref.timeout:
            en = vsim.parse_log(eref.log)["z"].get("allocs", 1)
            progs.append({"name": "every.as", "text": worlds.HELLO, "origin": "every", "opts": eopts, "ref": eref, "nalloc": en})
            epi = len(progs) - 1
            blk = 3000
            for a0 in range(0, en + blk, blk):
                cases.append((epi, {"gc": ["gc win %d %d" % (a0, blk), "gc cap %d" % blk]}))
                every_n += 1
            if tier != "quick":
                cases.append((epi, {"gc": ["gc per 1 0", "gc cap %d" % (en + 10)]}))
                every_n += 1
        # wide and shallow: many more corpus programs under a few cheap plans each (collector
        # mode, fill pattern, layout; no forced schedule) - rare layout-dependent diagnostics
        # show on few programs, so breadth matters as much as depth
        nwide = 400 if tier == "quick" else 700
        have = set(pr["name"] for pr in progs)
        wide = [(n, open(pth, "rb").read()) for n, pth, sz in cs if n not in have][:nwide]
        wopts = ["-Q2", "-Fao", "-Ffm", "-Fc"]
        wrefs = vsim.pmap(lambda w_: run_compile(binfo, scratch, {w_[0]: w_[1]}, wopts, [w_[0]], {}, cpu=40), wide)
        nwide_kept = 0
        for (n, text), ref in zip(wide, wrefs):
            if ref.timeout or ref.rc is None or worlds.fault_class(ref) or (ref.cpu if ref.cpu is not None else ref.wall) > 8 or b"Storage allocation error" in ref.out + ref.err:
                continue
            nwide_kept += 1
            progs.append({"name": n, "text": text, "origin": "corpus-wide", "opts": wopts, "ref": ref, "nalloc": 1})
            rng = vsim.Rng(seed, "c08-wide", n)
            pi = len(progs) - 1
            cheap = [{"gcopt": "-Wno-gc"}, {"wash": "wash on %s %s" % rng.choice(FILLS), "heapbase": rng.choice(BASES)},
                     {"gcenv": {"GC_FRUGAL": "1"}, "stackpad": rng.range(1, 65536), "envpad": rng.range(1, 4096)},
                     {"gc": ["gc per %d %d" % (rng.range(20000, 200000), rng.below(20000)), "gc cap 60"], "image": "b"}]
            for q in rng.sample(cheap, 2 if tier == "quick" else 4):
                cases.append((pi, q))
        # ... and programs over the other standard library (libaldor): its tests and the user guide's examples
        lwide = [(n, open(pth, "rb").read()) for n, pth, sz in worlds.corpus_libaldor() if n not in have]
        lwide = lwide[:40 if tier == "quick" else 200]
        lrefs = vsim.pmap(lambda w_: run_compile(binfo, scratch, {w_[0]: w_[1]}, wopts, [w_[0]], {}, cpu=60, pre=worlds.LIBALDOR_ARGS), lwide)
        nlib_kept = 0
        for (n, text), ref in zip(lwide, lrefs):
            if ref.timeout or ref.rc is None or worlds.fault_class(ref) or (ref.cpu if ref.cpu is not None else ref.wall) > 12 or b"Storage allocation error" in ref.out + ref.err:
                continue
            nlib_kept += 1
            progs.append({"name": n, "text": text, "origin": "corpus-wide", "opts": wopts, "ref": ref, "nalloc": 1, "pre": worlds.LIBALDOR_ARGS})
            rng = vsim.Rng(seed, "c08-lwide", n)
            pi = len(progs) - 1
            cheap = [{"gcopt": "-Wno-gc"}, {"wash": "wash on %s %s" % rng.choice(FILLS), "heapbase": rng.choice(BASES)},
                     {"gc": ["gc per %d %d" % (rng.range(20000, 200000), rng.below(20000)), "gc cap 60"], "image": "b"}]
            for q in cheap:
                cases.append((pi, q))
        # a wall-clock budget must thin the worlds evenly, not drop the programs that come last
        vsim.Rng(seed, "c08-order").shuffle(cases)
        budget = checklib.Budget(400 if tier == "quick" else 2400)
        results = []
        B = 256
        for b0 in range(0, len(cases), B):
            if budget.over():
                break
            results += vsim.pmap(lambda c: run_compile(binfo, scratch, files_of(progs[c[0]]["name"], progs[c[0]]["text"]),
                                                       progs[c[0]]["opts"], [progs[c[0]]["name"]], c[1], pre=progs[c[0]].get("pre", ()),
                                                       cpu=1200 if progs[c[0]]["origin"] == "every" else 120), cases[b0:b0 + B])
        done = len(results)

        # ---- batching: several files in one invocation vs one at a time -----------
        batch_cases = []
        okprogs = [i for i, pr in enumerate(progs) if pr["ref"].rc == 0 and pr["origin"] not in ("corpus-wide", "saved", "every") and pr["name"] not in AUX]
        rngb = vsim.Rng(seed, "c08-batch")
        nb = 10 if tier == "quick" else 120
        bopts = ["-Q2", "-Fao", "-Ffm", "-Fc", "-Flsp"]
        for _ in range(nb):
            if len(okprogs) < 2:
                break
            grp = rngb.sample(okprogs, rngb.range(2, min(3, len(okprogs))))
            batch_cases.append(grp)
            batch_cases.append(list(reversed(grp)))

        def run_batch(grp):
            files = dict((progs[i]["name"], progs[i]["text"]) for i in grp)
            single = [run_compile(binfo, scratch, {progs[i]["name"]: progs[i]["text"]}, bopts, [progs[i]["name"]], {}) for i in grp]
            b = run_compile(binfo, scratch, files, bopts, [progs[i]["name"] for i in grp], {})
            diffs = []
            for pos, (i, s) in enumerate(zip(grp, single)):
                unit = progs[i]["name"][:-3]
                bf = dict((k, v) for k, v in b.files.items() if os.path.basename(k).split(".")[0].split("-")[0] == unit)
                dd = [worlds.cls_of(k) for k in sorted(set(bf) | set(s.files)) if bf.get(k) != s.files.get(k)]
                if dd:
                    diffs.append((pos, sorted(set(dd))))
            # the batched invocation is itself a function of its input: the same batch under a
            # perturbed plan must reproduce every output of the unperturbed batch (this is
            # independent of, and not masked by, the known batch-versus-single finding)
            rngp = vsim.Rng(seed, "c08-batch-pert", "+".join(progs[i]["name"] for i in grp))
            q = gen_perturbation(rngp, 200000)
            q.pop("cwd", None)
            bp = run_compile(binfo, scratch, files, bopts, [progs[i]["name"] for i in grp], q)
            dp = differs(bp, b)
            if dp:
                diffs.append(("perturbed", dp, q))
            return diffs
        batch_results = vsim.pmap(run_batch, batch_cases) if not budget.over() else []

        # ---- judge ---------------------------------------------------------------------
        viol = []
        forced_exec = 0
        gc_freed = 0
        bases = set()
        distinct = set()
        dim_count = {}
        for ci, ((pi, p), r) in enumerate(zip(cases[:done], results)):
            d = differs(r, progs[pi]["ref"])
            lg = vsim.parse_log(r.log)
            forced_exec += lg["z"].get("forcedgc", 0)
            gc_freed += sum(1 for g in lg["gc"] if g[1] > 0)
            bases.add(p.get("heapbase", CANON_BASE))
            for k in dims_of(p):
                dim_count[k] = dim_count.get(k, 0) + 1
            if p:
                distinct.add((pi, json.dumps(p, sort_keys=True)))
            if d:
                viol.append((ci, d))

        # minimise each violating perturbation to the dimensions that matter
        by_key = {}
        vinfo = {}
        for ci, d in viol:
            pi, p = cases[ci]
            pr = progs[pi]

            def fails(dimlist):
                q = dict((k, p[k]) for k in dimlist)
                rr = run_compile(binfo, scratch, files_of(pr["name"], pr["text"]), pr["opts"], [pr["name"]], q, pre=pr.get("pre", ()), cpu=1200 if pr["origin"] == "every" else 120)
                return bool(differs(rr, pr["ref"]))
            dl = dims_of(p)
            if not dl:
                key = "repeat:" + "+".join(d)
                mind = []
            else:
                if len(viol) <= 40 or ci == viol[0][0]:
                    mind, _ = checklib.ddmin(dl, fails, 12) if len(dl) > 1 else (dl, 0)
                else:
                    mind = dl
                q = dict((k, p[k]) for k in mind)
                rr = run_compile(binfo, scratch, files_of(pr["name"], pr["text"]), pr["opts"], [pr["name"]], q, pre=pr.get("pre", ()), cpu=1200 if pr["origin"] == "every" else 120)
                d2 = differs(rr, pr["ref"])
                if not d2:
                    mind, d2 = dl, d
                key = "+".join(mind) + ":" + "+".join(d2)
            by_key.setdefault(key, []).append(ci)
            vinfo[ci] = (mind, d)
        for bi, diffs in enumerate(batch_results):
            for dfl in diffs:
                pos, dd = dfl[0], dfl[1]
                if pos == "perturbed":
                    key = "batch-perturbed:%s:%s" % ("+".join(sorted(dfl[2])), "+".join(dd))
                else:
                    key = "batch.pos%s:%s" % ("1" if pos == 0 else ">=2", "+".join(dd))
                by_key.setdefault(key, []).append(("batch", bi, pos))

        for key in sorted(by_key):
            ids = by_key[key]
            text = out.classify(key)
            if text is not None:
                out.known.append({"key": key, "text": "%s (%d cases this run)" % (text, len(ids))})
                continue
            first = ids[0]
            if isinstance(first, tuple):
                _, bi, pos = first
                grp = batch_cases[bi]
                # gate: same batch again
                again = run_batch(grp)
                if not any(x[0] == pos for x in again):
                    out.nondet.append("batch %d: difference did not reproduce" % bi)
                    continue
                rp = vsim.write_replay(PID, "seed%d-batch%d" % (seed, bi), {
                    "property": PID, "seed": seed, "batch": True, "opts": bopts,
                    "files": dict((progs[i]["name"], progs[i]["text"].decode("latin-1")) for i in grp),
                    "srcs": [progs[i]["name"] for i in grp],
                    "unit": progs[grp[pos]]["name"] if pos != "perturbed" else None,
                    "position": pos + 1 if pos != "perturbed" else None,
                    "perturbation": [x[2] for x in again if x[0] == "perturbed"][0] if pos == "perturbed" else {},
                    "key": key, "source_key": binfo["key"]})
                out.violations.append({"key": key, "cls": "batch", "detail": "batch %s: %s" % ([progs[i]["name"] for i in grp], key), "replay": rp})
                continue
            ids.sort(key=lambda ci: len(progs[cases[ci][0]]["text"]))
            ci = ids[0]
            pi, p = cases[ci]
            pr = progs[pi]
            mind, d = vinfo[ci]
            q = dict((k, p[k]) for k in mind) if mind else {}
            r1 = run_compile(binfo, scratch, files_of(pr["name"], pr["text"]), pr["opts"], [pr["name"]], q, pre=pr.get("pre", ()), cpu=1200 if pr["origin"] == "every" else 120)
            r2 = run_compile(binfo, scratch, files_of(pr["name"], pr["text"]), pr["opts"], [pr["name"]], q, pre=pr.get("pre", ()), cpu=1200 if pr["origin"] == "every" else 120)
            if r1.outcome_hash() != r2.outcome_hash() and mind:
                out.nondet.append("case %d: same plan twice gives different outputs" % ci)
                continue
            if not differs(r1, pr["ref"]):
                out.nondet.append("case %d: violation %s did not reproduce" % (ci, key))
                continue
            rp = vsim.write_replay(PID, "seed%d-c%d" % (seed, ci), {
                "property": PID, "seed": seed,
                "files": dict((k, v.decode("latin-1")) for k, v in files_of(pr["name"], pr["text"]).items()), "opts": pr["opts"], "pre": list(pr.get("pre", ())),
                "srcs": [pr["name"]], "perturbation": q, "differs": differs(r1, pr["ref"]), "key": key,
                "source_key": binfo["key"], "other_failing_cases": len(ids) - 1})
            out.violations.append({"key": key, "cls": "differs", "detail": "%s %s under %s (%d cases)" % (pr["name"], differs(r1, pr["ref"]), q, len(ids)), "replay": rp})

        wall = time.time() - t0
        cov = {
            "evaluations": done + len(batch_results),
            "distinct_nontrivial": len(distinct) + len(batch_results),
            "rule": "per program (corpus sample validated on the current tree + generated programs) one repetition of the reference plan and seeded perturbed plans over {collection schedule, heap base, stack pad, environment size and junk variables, fill pattern, clock, pid, working-directory depth, GC_* tuning}; plus batched-vs-single invocations; distinct = distinct (program, perturbation); non-trivial = at least one dimension differs from the reference",
            "samples": [{"program": progs[c[0]]["name"], "opts": progs[c[0]]["opts"], "perturbation": c[1]} for c in cases[1:done:max(1, done // 5)]][:6],
            "programs": len(progs), "program_origins": {"corpus": ncorpus, "generated": sum(1 for p in progs if p["origin"] == "generated"), "high_byte_identifier_programs": sum(1 for p in progs if p["origin"] == "hibyte"), "saved_forms_as_input": sum(1 for p in progs if p["origin"] == "saved"), "every_allocation_worlds": every_n, "corpus_wide_shallow": nwide_kept, "libaldor_wide_shallow": nlib_kept},
            "programs_rejected_with_same_diagnostics_kept": sum(1 for p in progs if p["ref"].rc != 0),
            "programs_dropped_by_reference_validation": dropped,
            "worlds_planned": len(cases), "worlds_run": done, "batch_groups": len(batch_results),
            "dimension_counts": dim_count,
            "forced_collections_executed": forced_exec, "forced_collections_that_freed_storage": gc_freed,
            "distinct_heap_bases": len(bases),
            "violating_worlds": len(viol), "violation_keys": dict((k, len(v)) for k, v in by_key.items()),
            "known_findings_matched": [k["key"] for k in out.known],
            "runs_per_hour": int((done + len(batch_results)) / max(wall, 1e-3) * 3600),
            "simulated_time": {"allocations_observed": sum(vsim.parse_log(r.log)["z"].get("allocs", 0) for r in results)},
            "components": vsim.components(), "source_key": binfo["key"],
        }
        vsim.write_evidence(PID, tier, seed, "exploration", cov, wall, violations=len(out.violations),
                            assumptions=["documented configuration variables (ALDORROOT, INCPATH, LIBPATH, CC, ...) are input and held fixed",
                                         "kernel ASLR replaced by seeded heap base, stack pad and environment size; load address of the binary not varied",
                                         "prebuilt Aldor libraries are a fixed input"])
        vsim.say("C08 %s: %d programs, %d worlds + %d batch groups, %d violating (%d keys), %d known keys, %.1fs" %
                 (tier, len(progs), done, len(batch_results), len(viol), len(by_key), len(out.known), wall))
    return out.report()


if __name__ == "__main__":
    sys.exit(main(sys.argv[1:]))
