"""Compiler / interpreter / compiled-program worlds and the source corpus."""
import os
import re
import subprocess

import buildlib
import vsim

LIBREPO = buildlib.LIBREPO
AXLLIB_TEST = os.path.join(LIBREPO, "aldor", "lib", "axllib", "test")

OUT_CLASSES = ["ai", "ap", "asy", "ao", "fm", "lsp", "c", "java", "main"]
OUT_FLAG = {"ai": "-Fai", "ap": "-Fap", "asy": "-Fasy", "ao": "-Fao", "fm": "-Ffm", "lsp": "-Flsp",
            "c": "-Fc", "java": "-Fjava", "main": "-Fmain"}


def cls_of(relpath):
    b = os.path.basename(relpath)
    if b.endswith("aldormain.c"):
        return "main"
    if b.endswith("_cc.h"):
        return "cpph"
    if b.endswith("_as.as"):
        return "cppas"
    ext = os.path.splitext(b)[1]
    return {".ao": "ao", ".fm": "fm", ".c": "c", ".h": "h", ".lsp": "lsp", ".java": "java", ".asy": "asy",
            ".ap": "ap", ".ai": "ai", ".as": "src", ".al": "lib"}.get(ext, "other")


def compile_world(binfo, wdir, files, opts, srcs, plan_extra=(), env=None, cpu=60, envpad=0,
                  pre=None, stdin_data=None, skip_src=True):
    """Run aldor.sim in wdir/sb on `srcs` (names relative to the sandbox).
    `files`: name -> bytes, written into the sandbox first.  `pre(sandbox)`
    may prepare the sandbox further (e.g. make a directory in the way)."""
    sb = os.path.join(wdir, "sb")
    os.makedirs(sb, exist_ok=True)
    for n, data in files.items():
        p = os.path.join(sb, n)
        os.makedirs(os.path.dirname(p), exist_ok=True)
        with open(p, "wb") as f:
            f.write(data if isinstance(data, bytes) else data.encode())
    if pre:
        pre(sb)
    plan = ["fs root " + sb] + list(plan_extra)
    argv = [binfo["aldor"]] + buildlib.aldor_args() + list(opts) + list(srcs)
    r = vsim.run_world(binfo, argv, plan, wdir, env=env, cpu=cpu, envpad=envpad, stdin_data=stdin_data,
                       skip=tuple(files.keys()) if skip_src else ())
    return r


DIAG = re.compile(rb"\((Fatal Error|Error)\)")
FAULT = re.compile(rb"Program fault|Segmentation|segmentation|Bug:|Compiler bug|Assertion failed|Storage allocation error|core dumped")


def has_diag(r):
    return bool(DIAG.search(r.out) or DIAG.search(r.err))


def fault_class(r):
    """None, or one of fault / bug / hang (for a compiler world)."""
    if r.timeout:
        return "hang"
    txt = r.out + b"\n" + r.err
    if r.sig is not None:
        return "fault"
    if re.search(rb"Program fault|Segmentation|segmentation violation", txt):
        return "fault"
    if re.search(rb"Bug:|Compiler bug|Assertion failed|Not supposed to reach", txt):
        return "bug"
    return None


def corpus(max_bytes=6000, exclude=()):
    """Candidate sources of the pinned corpus (lib/axllib/test/<name>/<name>.as),
    in a deterministic order."""
    out = []
    try:
        names = sorted(os.listdir(AXLLIB_TEST))
    except OSError:
        return out
    for d in names:
        n = d + ".as"
        p = os.path.join(AXLLIB_TEST, d, n)
        if n in exclude or not os.path.isfile(p):
            continue
        try:
            sz = os.path.getsize(p)
        except OSError:
            continue
        if sz <= max_bytes:
            out.append((n, p, sz))
    return out


HELLO = b'''#include "axllib"
import from SingleInteger;
f(n: SingleInteger): SingleInteger == if n < 2 then 1 else n * f(n-1);
print << "hello " << f(10) << newline;
'''


ALDORLIB = os.path.join(LIBREPO, "aldor", "lib", "aldor")
LIBALDOR_ARGS = ["-I%s/include" % ALDORLIB, "-Y%s/src" % ALDORLIB]	# must precede the compiler's own -I (its source
								# directory holds a file called `aldor')


def corpus_libaldor(max_bytes=8000):
    """Programs over the other standard library: lib/aldor/test/<n>/<n>.as and the user guide's examples."""
    out = []
    root = os.path.join(LIBREPO, "aldor")
    cands = []
    t = os.path.join(root, "lib", "aldor", "test")
    try:
        for d in sorted(os.listdir(t)):
            cands.append(os.path.join(t, d, d + ".as"))
    except OSError:
        pass
    for sub in ("examples", "samples"):
        dd = os.path.join(root, "aldorug", sub)
        try:
            for n in sorted(os.listdir(dd)):
                if n.endswith(".as"):
                    cands.append(os.path.join(dd, n))
        except OSError:
            pass
    seen = set()
    for p in cands:
        n = os.path.basename(p)
        try:
            if n in seen or not os.path.isfile(p) or os.path.getsize(p) > max_bytes:
                continue
            if b'#include "aldor"' not in open(p, "rb").read():
                continue
        except OSError:
            continue
        seen.add(n)
        out.append((n, p, os.path.getsize(p)))
    return out
