"""Core of the orchestrator: seeded PRNG, world execution, parallel batches,
evidence and replay files, known findings.

No decision here depends on anything but VERIF_SEED: results of a batch are
always consumed in run-index order, never in completion order.
"""
import hashlib
import json
import os
import shutil
import subprocess
import threading
import sys
import time
from concurrent.futures import ThreadPoolExecutor

import buildlib

VERIF = buildlib.VERIF
MASK = (1 << 64) - 1
NPROC = int(os.environ.get("VERIF_JOBS", "16"))


# --------------------------------------------------------------------------
# PRNG (splitmix64): one integer decides everything
# --------------------------------------------------------------------------
class Rng:
    def __init__(self, *seed):
        s = 0x243F6A8885A308D3
        for x in seed:
            if isinstance(x, str):
                x = int.from_bytes(hashlib.sha256(x.encode()).digest()[:8], "big")
            s = self._mix((s ^ (x & MASK)) & MASK)
        self.s = s

    @staticmethod
    def _mix(z):
        z = (z + 0x9E3779B97F4A7C15) & MASK
        z = ((z ^ (z >> 30)) * 0xBF58476D1CE4E5B9) & MASK
        z = ((z ^ (z >> 27)) * 0x94D049BB133111EB) & MASK
        return z ^ (z >> 31)

    def u64(self):
        self.s = (self.s + 0x9E3779B97F4A7C15) & MASK
        z = self.s
        z = ((z ^ (z >> 30)) * 0xBF58476D1CE4E5B9) & MASK
        z = ((z ^ (z >> 27)) * 0x94D049BB133111EB) & MASK
        return z ^ (z >> 31)

    def below(self, n):
        return self.u64() % n if n > 0 else 0

    def range(self, lo, hi):
        """integer in [lo, hi]"""
        return lo + self.below(hi - lo + 1)

    def chance(self, num, den):
        return self.below(den) < num

    def choice(self, seq):
        return seq[self.below(len(seq))]

    def weighted(self, pairs):
        tot = sum(w for _, w in pairs)
        r = self.below(tot)
        for v, w in pairs:
            if r < w:
                return v
            r -= w
        return pairs[-1][0]

    def loguniform(self, lo, hi):
        """integer in [lo, hi], uniform in the exponent"""
        if hi <= lo:
            return lo
        import math
        a, b = math.log(lo), math.log(hi + 1)
        x = a + (b - a) * (self.u64() / float(1 << 64))
        return max(lo, min(hi, int(math.exp(x))))

    def shuffle(self, lst):
        for i in range(len(lst) - 1, 0, -1):
            j = self.below(i + 1)
            lst[i], lst[j] = lst[j], lst[i]
        return lst

    def sample(self, seq, k):
        l = list(seq)
        self.shuffle(l)
        return l[:k]

    def fork(self, *tag):
        return Rng(self.u64(), *tag)


def seed_from_env():
    try:
        return int(os.environ.get("VERIF_SEED", "1"))
    except ValueError:
        return 1


def tier_from_env(argv_tier=None):
    t = argv_tier or os.environ.get("VERIF_TIER", "quick")
    return t if t in ("quick", "thorough") else "quick"


# --------------------------------------------------------------------------
# Worlds
# --------------------------------------------------------------------------
BASE_ENV = {"PATH": "/usr/bin:/bin", "LANG": "C", "LC_ALL": "C"}


class WorldResult:
    __slots__ = ("rc", "out", "err", "log", "files", "wall", "timeout", "sig", "cpu")

    def __init__(self):
        self.rc = None
        self.out = b""
        self.err = b""
        self.log = ""
        self.files = {}
        self.wall = 0.0
        self.cpu = None		# CPU seconds the world used (None when it did not end by itself)
        self.timeout = False
        self.sig = None

    def log_hash(self):
        return hashlib.sha256(self.log.encode()).hexdigest()[:16]

    def outcome_hash(self):
        h = hashlib.sha256()
        h.update(repr(self.rc).encode())
        h.update(self.out)
        h.update(b"\0")
        h.update(self.err)
        for k in sorted(self.files):
            h.update(k.encode())
            h.update(hashlib.sha256(self.files[k]).digest())
        return h.hexdigest()[:16]


def collect_files(root, skip=()):
    out = {}
    for d, _, names in os.walk(root):
        for n in names:
            p = os.path.join(d, n)
            rel = os.path.relpath(p, root)
            if rel in skip:
                continue
            try:
                out[rel] = open(p, "rb").read()
            except OSError:
                pass
    return out


def run_world(binfo, argv, plan_lines, wdir, cwd=None, env=None, stdin_data=None,
              cpu=60, wall=None, collect=True, skip=(), as_bytes=4 << 30, keep_log=True, envpad=0):
    """Execute one simulated world.  `wdir` is a directory this call owns:
    wdir/sb is the sandbox (the world's working directory and simulated
    disk), wdir/plan and wdir/log sit beside it so they never show up as
    outputs.  The environment handed to the world has a fixed size whatever
    wdir is called (plan and log are named relative to the sandbox): the
    initial stack position is part of the plan (envpad), not of the run."""
    sandbox = os.path.join(wdir, "sb")
    os.makedirs(sandbox, exist_ok=True)
    plan_path = os.path.join(wdir, "plan")
    log_path = os.path.join(wdir, "log")
    with open(plan_path, "w") as f:
        f.write("\n".join(plan_lines) + "\n")
    if os.path.exists(log_path):
        os.unlink(log_path)
    cwd = cwd or sandbox
    e = dict(BASE_ENV)
    if env:
        e.update(env)
    e["ALDORSIM_PLAN"] = os.path.relpath(plan_path, cwd)
    e["ALDORSIM_LOG"] = os.path.relpath(log_path, cwd)
    if envpad:
        e["ALDORSIM_PAD"] = "x" * envpad
    cmd = [binfo["simrun"], "--cpu", str(int(cpu)), "--as", str(int(as_bytes)), "--"] + list(argv)
    r = WorldResult()
    t0 = time.time()
    try:
        p = subprocess.run(cmd, cwd=cwd, env=e, input=stdin_data if stdin_data is not None else b"",
                           stdout=subprocess.PIPE, stderr=subprocess.PIPE,
                           timeout=wall or (cpu * 8 + 60))
        r.rc = p.returncode
        r.out, r.err = p.stdout, p.stderr
        if p.returncode < 0:
            r.sig = -p.returncode
            if r.sig in (24, 9):	# SIGXCPU / SIGKILL from the cpu limit
                r.timeout = True
    except subprocess.TimeoutExpired as ex:
        r.rc = None
        r.timeout = True
        r.out = ex.stdout or b""
        r.err = ex.stderr or b""
    r.wall = time.time() - t0
    try:
        r.cpu = int(open(log_path + ".cpu").read().strip()) / 1000.0
        os.unlink(log_path + ".cpu")
    except (OSError, ValueError):
        r.cpu = None
    if keep_log:
        try:
            r.log = open(log_path, "r", errors="replace").read()
        except OSError:
            r.log = ""
    if collect:
        r.files = collect_files(sandbox, skip)
    return r


def cleanup_world(wdir):
    shutil.rmtree(wdir, ignore_errors=True)


def pmap(fn, items, nproc=None):
    """Parallel map; results in input order."""
    nproc = nproc or NPROC
    if nproc <= 1 or len(items) <= 1:
        return [fn(x) for x in items]
    with ThreadPoolExecutor(max_workers=nproc) as ex:
        return list(ex.map(fn, items))


class Scratch:
    """A per-check scratch root in tmpfs, removed on exit."""

    def __init__(self, tag):
        base = "/dev/shm" if os.path.isdir("/dev/shm") else "/tmp"
        self.root = os.path.join(base, "verif-%s-%d" % (tag, os.getpid()))
        shutil.rmtree(self.root, ignore_errors=True)
        os.makedirs(self.root)
        # scratch roots of checks that were killed: remove what is older than six hours
        try:
            for d in os.listdir(base):
                p = os.path.join(base, d)
                if d.startswith("verif-") and p != self.root and time.time() - os.path.getmtime(p) > 6 * 3600:
                    shutil.rmtree(p, ignore_errors=True)
        except OSError:
            pass
        self.n = 0
        self.lock = threading.Lock()

    def new(self, name=None):
        with self.lock:
            self.n += 1
            n = self.n
        return os.path.join(self.root, name or ("w%06d" % n))

    def close(self):
        shutil.rmtree(self.root, ignore_errors=True)

    def __enter__(self):
        return self

    def __exit__(self, *a):
        self.close()


# --------------------------------------------------------------------------
# log parsing
# --------------------------------------------------------------------------
def parse_log(text):
    """Returns dict: counters from Z lines, probes, G events, fs events..."""
    d = {"gc": [], "fs": [], "probes": {}, "z": {}, "faults": [], "sbrk": [], "allocs": 0, "escapes": []}
    for ln in text.splitlines():
        if not ln:
            continue
        t = ln.split()
        k = t[0]
        if k == "A":
            d["allocs"] += 1
        elif k == "E" and len(t) >= 3:
            d["escapes"].append(" ".join(t[1:]))
        elif k == "G":
            d["gc"].append(tuple(int(x) for x in t[1:5]))
        elif k in "ORWSCUNM" and len(k) == 1:
            d["fs"].append(t)
        elif k == "B":
            d["sbrk"].append(t)
        elif k == "P":
            d["probes"][int(t[1])] = int(t[2])
        elif k == "Z":
            i = 1
            pre = ""
            if t[1] in ("fs", "sbrk"):
                pre = t[1] + "_"
                i = 2 if t[1] == "fs" else 1
            while i + 1 < len(t):
                try:
                    d["z"][pre + t[i]] = int(t[i + 1])
                except ValueError:
                    pass
                i += 2
        elif k == "F":
            d["faults"].append((int(t[1]), t[2], int(t[3])))
    return d


# --------------------------------------------------------------------------
# evidence / replay / findings
# --------------------------------------------------------------------------
def write_evidence(pid, tier, seed, level, coverage, wall_s, violations=0, assumptions=None):
    os.makedirs(os.path.join(VERIF, "evidence"), exist_ok=True)
    # keys the evidence schema reserves with a fixed type
    for k in ("evaluations", "distinct_nontrivial", "states", "transitions", "traces_validated_against_impl",
              "obligations", "discharged", "programs", "disagreements_checked"):
        if k in coverage and not isinstance(coverage[k], int):
            raise TypeError("coverage[%r] must be an integer" % k)
    for k in ("rule", "checker_cmd", "explanation"):
        if k in coverage and not isinstance(coverage[k], str):
            raise TypeError("coverage[%r] must be a string" % k)
    if "samples" in coverage and not (isinstance(coverage["samples"], list) and coverage["samples"]):
        raise TypeError("coverage['samples'] must be a non-empty list")
    ev = {
        "property_id": pid, "tier": tier, "seed": int(seed), "level": level,
        "coverage": coverage, "assumptions": assumptions or [],
        "wall_s": round(wall_s, 2), "violations": int(violations),
    }
    # self-tests against mutants must not overwrite the evidence of the real tree
    edir = os.environ.get("VERIF_EVIDENCE_DIR") or os.path.join(VERIF, "evidence")
    os.makedirs(edir, exist_ok=True)
    p = os.path.join(edir, pid + ".json")
    tmp = p + ".tmp"
    with open(tmp, "w") as f:
        json.dump(ev, f, indent=1, sort_keys=True, default=str)
    os.replace(tmp, p)
    return p


def replay_dir():
    d = os.path.join(os.environ.get("VERIF_EVIDENCE_DIR") or VERIF, "replays")
    os.makedirs(d, exist_ok=True)
    return d


def write_replay(pid, name, obj):
    p = os.path.join(replay_dir(), "%s-%s.json" % (pid, name))
    with open(p, "w") as f:
        json.dump(obj, f, indent=1, sort_keys=True, default=str)
    return p


def load_findings():
    """known_findings.txt: lines `finding: property=<id> key=<key> <text>` and
    `fixed: property=<id> <commit> <text>`.  Never written at run time."""
    out = {}
    p = os.path.join(VERIF, "known_findings.txt")
    try:
        for ln in open(p):
            ln = ln.strip()
            if not ln.startswith("finding:"):
                continue
            parts = ln.split(None, 3)
            if len(parts) < 3:
                continue
            prop = parts[1].split("=", 1)[1]
            key = parts[2].split("=", 1)[1]
            out.setdefault(prop, {})[key] = parts[3] if len(parts) > 3 else ""
    except OSError:
        pass
    return out


def components():
    return {
        "real": ["compiler front end, type inference, FOAM generation, optimiser, C/Lisp/Java emitters (rebuilt from /repo with -DALDOR_VERIF)",
                 ".ao/.fm writer and reader, archive reader", "interpreter fint.c and interactive loop",
                 "allocator + collector store.c, btree.c (compiler and -DFOAM_RTS builds)",
                 "Aldor C runtime foam_c.c foam_i.c bigint.c ... (rebuilt)", "glibc stdio buffering above the cookie"],
        "real_prebuilt": ["libaxllib.al/.a, libfoamlib.al/.a, libfoam.al, runtime.c as /repo's own build left them"],
        "simulated": ["disk (fopencookie callbacks over a tmpfs sandbox)", "OS memory supply (sbrk arena)",
                      "clock (time/times/clock)", "pid", "stdin transport", "collection schedule (allocation hook)",
                      "stack displacement / environment size"],
        "outside_the_world": ["gcc (links compiled programs)", "ar (packs .al for C17)"],
    }


def say(*a):
    print(*a, flush=True)
