"""Seeded generator of allocation-heavy Aldor programs over axllib (DESIGN.md
Appendix A.1).  A program is a selection of closed blocks; each block defines
what it needs and contributes one `@k checksum` line to main, so dropping
blocks keeps a program valid (used by minimisation).  Pure function of the
Rng; never consults the system under test."""

HEADER = '''#include "axllib"
SI ==> SingleInteger;
import from SI, Integer, String, Boolean;
import from List SI, List Integer, Array SI;
'''

M = 1000003


def b_list(u, rng, n):
    k = rng.range(1, 9)
    op = rng.choice(["rev", "map", "filter", "append"])
    body = {
        "rev": "l := reverse l;",
        "map": "l := [x + %d for x in l];" % rng.range(1, 50),
        "filter": "l := [x for x in l | x rem %d ~= 0];" % rng.range(2, 5),
        "append": "l := concat(l, reverse l);",
    }[op]
    d = '''
lst%(u)s(n: SI): SI == {
	l: List SI := nil;
	for i: SI in 1..n repeat l := cons(i*%(k)d, l);
	%(body)s
	s: SI := 0;
	for x in l repeat s := (s + x) rem %(M)d;
	s
}
''' % dict(u=u, k=k, body=body, M=M)
    return d, [], "lst%s(%d)" % (u, n)


def b_record(u, rng, n):
    w = rng.range(1, 30)
    fields = ", ".join("f%d: SI" % i for i in range(1, w + 1))
    vals = ", ".join("i+%d" % i for i in range(w))
    d = '''
R%(u)s == Record(%(fields)s);
mkr%(u)s(i: SI): R%(u)s == { import from R%(u)s; [%(vals)s] }
rec%(u)s(n: SI): SI == {
	import from R%(u)s, List R%(u)s;
	l: List R%(u)s := nil;
	for i: SI in 1..n repeat l := cons(mkr%(u)s i, l);
	s: SI := 0;
	for r in l repeat s := (s + r.f1 + r.f%(w)d) rem %(M)d;
	s
}
''' % dict(u=u, fields=fields, vals=vals, w=w, M=M)
    return d, [], "rec%s(%d)" % (u, n)


def b_node(u, rng, n):
    m = rng.range(3, 9)
    e = rng.range(2, 6)
    d = '''
N%(u)s == Record(val: SI, kids: List SI, big: Integer);
mkn%(u)s(i: SI): N%(u)s == {
	import from N%(u)s;
	l: List SI := nil;
	for j: SI in 1..(i rem %(m)d) repeat l := cons(i*j, l);
	[i, l, (i::Integer)^((%(e)d + i rem 5)::Integer)]
}
nod%(u)s(n: SI): Integer == {
	import from N%(u)s, List N%(u)s;
	nodes: List N%(u)s := nil;
	for i: SI in 1..n repeat nodes := cons(mkn%(u)s i, nodes);
	s: SI := 0; b: Integer := 0;
	for nd in nodes repeat { s := s + nd.val; for k in nd.kids repeat s := (s + k) rem %(M)d; b := b + nd.big }
	b + s::Integer
}
''' % dict(u=u, m=m, e=e, M=M)
    return d, [], "nod%s(%d)" % (u, n)


def b_closure(u, rng, n):
    d = '''
add%(u)s(n: SI): SI -> SI == (x: SI): SI +-> x + n;
clo%(u)s(n: SI): SI == {
	import from List(SI -> SI);
	fs: List(SI -> SI) := [add%(u)s i for i: SI in 1..n];
	t: SI := 0;
	for f in fs repeat t := (t + f(t rem 100)) rem %(M)d;
	t
}
''' % dict(u=u, M=M)
    return d, [], "clo%s(%d)" % (u, n)


def b_generator(u, rng, n):
    d = '''
sq%(u)s(n: SI): Generator SI == generate {
	for i: SI in 1..n repeat { l: List SI := [i, i*i rem 1000]; yield first rest l }
}
gen%(u)s(n: SI): SI == {
	q: SI := 0;
	for x in sq%(u)s n repeat { junk: List SI := [x, q]; q := (q + first junk) rem %(M)d }
	q
}
''' % dict(u=u, M=M)
    return d, [], "gen%s(%d)" % (u, n)


def b_bigint(u, rng, n):
    kind = rng.choice(["fact", "pow", "gcd", "sum"])
    if kind == "fact":
        d = '''
big%(u)s(n: SI): Integer == { f: Integer := 1; for i: SI in 1..n repeat f := f * (i::Integer); f rem 1000000007 }
''' % dict(u=u)
        nn = min(n, 400) if rng.chance(1, 2) else min(max(n, 450), 900)
    elif kind == "pow":
        d = '''
big%(u)s(n: SI): Integer == { s: Integer := 0; for i: SI in 1..n repeat s := s + (i::Integer)^((i rem 40 + 2)::Integer); s rem 1000000007 }
''' % dict(u=u)
        nn = min(n, 300)
    elif kind == "gcd":
        d = '''
big%(u)s(n: SI): Integer == { a: Integer := 1; b: Integer := 1; g: Integer := 0; e: Integer := 20; for i: SI in 1..n repeat { t: Integer := a + b; a := b; b := t; g := g + gcd(b, (i::Integer)^e) } g }
''' % dict(u=u)
        nn = min(n, 500)
    else:
        d = '''
big%(u)s(n: SI): Integer == { l: List Integer := nil; for i: SI in 1..n repeat l := cons((i::Integer) * 4294967311, l); s: Integer := 0; for x in l repeat s := s + x * x; s }
''' % dict(u=u)
        nn = n
    return d, [], "big%s(%d)" % (u, nn)


def b_bigops(u, rng, n):
    """Big-integer primitives beyond + * ^ gcd: divide / quo / rem with both signs, shifts in both
    directions, rationals (normalised through gcd), software floats; the value returned is itself
    several hundred digits long, so printing it formats a large number."""
    # magnitudes: a few hundred bits, or several thousand (other code paths, other piece sizes)
    e1, e2 = (rng.range(120, 260) if rng.chance(1, 2) else rng.range(1300, 3200)), rng.range(9, 23)
    d = '''
bop%(u)s(n: SI): Integer == {
	import from Ratio Integer, Float;
	a: Integer := 3^%(e1)d + 7;
	s: Integer := 0;
	l: List Integer := nil;
	for i: SI in 1..n repeat {
		b: Integer := ((i + 1000)::Integer)^%(e2)d + 12345678901234567;
		(q, r) := divide(a, b);
		s := s + (q rem 1000003) + r rem 1000003;
		s := s + shift(b, 5 + i rem 70) rem 1000003 + shift(a, -(i rem 90)) rem 1000003;
		s := s + (-a) quo b;
		s := s + gcd(a + i::Integer, b);
		l := cons(b * b - a, l);
		a := a + b;
	}
	for x in l repeat s := (s + x rem 1000003) rem 1000000007;
	rr: Ratio Integer := 0;
	for i: SI in 1..(n quo 4 + 1) repeat rr := rr + (1@Integer) / ((i::Integer)^3 + 1);
	s := s + numer rr rem 1000003 + denom rr rem 1000003;
	f: Float := 1.5;
	for i: SI in 1..(n quo 4 + 1) repeat f := f * 1.25 + 0.125;
	s := s + (integer(f) rem 1000003);
	(s rem 1000000007) + a * a
}
''' % dict(u=u, e1=e1, e2=e2)
    return d, [], "bop%s(%d)" % (u, min(n, 120))


def b_scalararr(u, rng, n):
    """Arrays of every scalar element type (the runtime has a constructor per type)."""
    d = '''
sca%(u)s(n: SI): SI == {
	import from Boolean, Character, DoubleFloat, SingleFloat;
	import from Array Boolean, Array Character, Array DoubleFloat, Array SingleFloat;
	composite: Array Boolean := new(n + 2, false);
	count: SI := 0;
	for i: SI in 2..n repeat {
		if not composite.i then {
			count := count + 1;
			for j: SI in i+i..n by i repeat composite.j := true;
		}
	}
	cs: Array Character := new(n + 2, char "a");
	for i: SI in 1..n repeat if i rem 3 = 0 then cs.i := char "b";
	for i: SI in 1..n repeat if cs.i = char "b" then count := count + 1;
	ds: Array DoubleFloat := new(n + 2, 0.5);
	fs: Array SingleFloat := new(n + 2, 0.25);
	acc: DoubleFloat := 0.0;
	for i: SI in 1..n repeat { ds.i := ds.i + i::DoubleFloat; acc := acc + ds.i }
	facc: SingleFloat := 0.0;
	for i: SI in 1..n repeat facc := facc + fs.i;
	(count + (integer acc)::SI + (integer facc)::SI) rem %(M)d
}
''' % dict(u=u, M=M)
    return d, [], "sca%s(%d)" % (u, min(max(n, 10), 2000))


def b_rterr(u, rng, n):
    """Runtime errors raised by the runtime library itself and caught by the program: a big-integer
    division by zero inside try/catch, several times, between ordinary work."""
    d = '''
rtq%(u)s(a: Integer, b: Integer): Integer == {
	try a quo b catch E in {
		true => -1;
		never;
	}
}
rte%(u)s(n: SI): Integer == {
	import from List Integer;
	s: Integer := 0;
	l: List Integer := nil;
	for i: SI in 1..n repeat {
		l := cons((i::Integer)^12, l);
		s := s + rtq%(u)s(10^20 + i::Integer, (i rem 4)::Integer);
	}
	for x in l repeat s := s + x rem 1000003;
	s rem 1000000007
}
''' % dict(u=u)
    return d, [], "rte%s(%d)" % (u, min(n, 400))


def b_string(u, rng, n):
    piece = rng.choice(["ab", "xyz", "q", "hello "])
    d = '''
str%(u)s(n: SI): SI == { s: String := ""; for i: SI in 1..n repeat s := concat(s, "%(p)s"); #s }
''' % dict(u=u, p=piece)
    return d, [], "str%s(%d)" % (u, min(n, 300))


def b_table(u, rng, n):
    m = rng.range(5, 40)
    d = '''
tab%(u)s(n: SI): Integer == {
	import from HashTable(SI, Integer);
	tb: HashTable(SI, Integer) := table();
	for i: SI in 1..n repeat tb.i := (i::Integer) * (i::Integer) * 65537;
	for i: SI in 1..n repeat if i rem %(m)d = 0 then tb.i := 0;
	v: Integer := 0;
	for i: SI in 1..n repeat v := v + tb.i;
	v
}
''' % dict(u=u, m=m)
    return d, [], "tab%s(%d)" % (u, n)


def b_array(u, rng, n):
    d = '''
arr%(u)s(n: SI): SI == {
	a: Array SI := new(n, 0);
	for i: SI in 1..n repeat a.i := i * %(k)d;
	b: Array SI := new(n, 1);
	for i: SI in 1..n repeat b.i := a.(n + 1 - i);
	s: SI := 0;
	for i: SI in 1..n repeat s := (s + b.i) rem %(M)d;
	s
}
''' % dict(u=u, k=rng.range(2, 9), M=M)
    return d, [], "arr%s(%d)" % (u, n)


def b_domain(u, rng, n):
    d = '''
Shape%(u)s: Category == with {
	area: %% -> SI;
	name: %% -> String;
	describe: %% -> String;
	default describe(s: %%): String == concat(name s, "!");
}
Box%(u)s(T: with { coerce: SI -> %%; coerce: %% -> SI }): Shape%(u)s with { box: (SI, SI) -> %% } == add {
	Rep ==> Record(w: T, h: T);
	import from Rep;
	box(a: SI, b: SI): %% == per [a::T, b::T];
	area(s: %%): SI == (rep(s).w)::SI * (rep(s).h)::SI;
	name(s: %%): String == "box";
}
Wrap%(u)s: with { coerce: SI -> %%; coerce: %% -> SI } == add {
	Rep ==> SI;
	coerce(n: SI): %% == per n;
	coerce(x: %%): SI == rep x;
}
dom%(u)s(n: SI): SI == {
	import from Box%(u)s Wrap%(u)s, List Box%(u)s Wrap%(u)s;
	l: List Box%(u)s Wrap%(u)s := [box(i, i+1) for i: SI in 1..n];
	t: SI := 0;
	for b in l repeat t := (t + area b) rem %(M)d;
	t + #(describe first l)
}
''' % dict(u=u, M=M)
    return d, [], "dom%s(%d)" % (u, n)


def b_docs(u, rng, n):
    """A domain whose exports carry documentation comments: before the declaration (+++),
    after it (++), or both (the two texts are merged into one)."""
    words = ["counter", "adds one", "reads", "the value", "starting at zero", "returns it", "x" * rng.range(1, 200)]

    def doc(name, how=None):
        how = rng.below(4) if how is None else how
        pre = "\t+++ %s %s\n" % (name, rng.choice(words)) if how in (0, 2) else ""
        if how == 2 and rng.chance(1, 2):
            pre += "\t+++ %s\n" % rng.choice(words)
        post = "\t\t++ %s.\n" % rng.choice(words) if how in (1, 2) else ""
        return pre, post
    d0, d1, d2 = doc("new()"), doc("bump!(c)", 2), doc("value(c)")	# one export always carries both styles
    d = ("\n+++ Counter%(u)s is a small domain of counters.\nCounter%(u)s: with {\n"
         + d0[0] + "\tnew:   () -> %%;\n" + d0[1]
         + d1[0] + "\tbump!: %% -> %%;\n" + d1[1]
         + d2[0] + "\tvalue: %% -> SI;\n" + d2[1] + """} == add {
	Rep ==> Record(n: SI);
	import from Rep;
	new(): %% == per [0];
	bump!(c: %%): %% == { rep(c).n := rep(c).n + 1; c }
	value(c: %%): SI == rep(c).n;
}
doc%(u)s(n: SI): SI == {
	import from Counter%(u)s;
	c := new();
	for i: SI in 1..n repeat bump! c;
	value c
}
""") % dict(u=u)
    return d, [], "doc%s(%d)" % (u, n)


def b_exn(u, rng, n):
    k = rng.range(3, 11)
    d = '''
define EX%(u)s: Category == ArithmeticException with;
EX%(u)s: EX%(u)s@Category == add;
thr%(u)s(i: SI, l: List SI): SI == {
	i rem %(k)d = 0 => throw EX%(u)s;
	i + #l
}
exn%(u)s(n: SI): SI == {
	s: SI := 0;
	for i: SI in 1..n repeat {
		l: List SI := [i, i+1, i+2];
		try s := (s + thr%(u)s(i, l)) rem %(M)d catch E in {
			E has EX%(u)s => s := s + first l;
			s := 0;
		}
	}
	s
}
''' % dict(u=u, k=k, M=M)
    return d, [], "exn%s(%d)" % (u, min(n, 600))


def b_union(u, rng, n):
    d = '''
U%(u)s == Union(i: SI, s: String, l: List SI);
mku%(u)s(k: SI): U%(u)s == {
	import from U%(u)s;
	k rem 3 = 0 => [k];
	k rem 3 = 1 => ["s"];
	[[k, k+1]]
}
uni%(u)s(n: SI): SI == {
	import from U%(u)s, List U%(u)s;
	us: List U%(u)s := [mku%(u)s k for k: SI in 1..n];
	t: SI := 0;
	for u in us repeat {
		if u case i then t := (t + u.i) rem %(M)d;
		else if u case s then t := t + #(u.s);
		else t := t + first(u.l);
	}
	t
}
''' % dict(u=u, M=M)
    return d, [], "uni%s(%d)" % (u, n)


def b_float(u, rng, n):
    d = '''
flo%(u)s(n: SI): Integer == {
	import from DoubleFloat, List DoubleFloat;
	fs: List DoubleFloat := [i::DoubleFloat * 1.5 for i: SI in 1..n];
	acc: DoubleFloat := 0.0;
	for f in fs repeat acc := acc + f;
	(integer acc) rem %(M)d
}
''' % dict(u=u, M=M)
    return d, [], "flo%s(%d)" % (u, n)


def b_tokens(u, rng, n):
    """Lexical extremes: integer literals, string literals and identifiers of every
    length in a seeded window (token-buffer boundaries of the scanner and of the
    emitters lie somewhere in 1..300)."""
    a = rng.range(20, 290)
    w = rng.range(12, 28)
    lines = []
    tot = 0
    for L in range(a, a + w):
        lit = str(rng.range(1, 9)) + "".join(str(rng.below(10)) for _ in range(L - 1))
        lines.append("\ts := s + %s;" % lit)
    La = rng.range(20, 200)
    ident = "v" + "".join(rng.choice("abcdefghij") for _ in range(La))
    strlit = "".join(rng.choice("abcdefgh ") for _ in range(rng.range(40, 300)))
    # an identifier with escaped bytes above 127 (the program text is encoded as latin-1)
    hid = "h" + "".join("_" + chr(rng.choice([0xa9, 0xc3, 0xe9, 0xf0, 0xf3, 0xfd, 0x80 + rng.below(0x7e)])) for _ in range(rng.range(1, 3))) + "z"
    d = '''
%(hid)sf(n: SI): SI == n + 1;
tok%(u)s(n: SI): Integer == {
	s: Integer := 0;
%(lines)s
	%(ident)s: String := "%(strlit)s";
	%(hid)s: Integer := 7;
	(s + %(hid)s + (%(hid)sf(n))::Integer + (#%(ident)s)::Integer) rem 1000000007
}
''' % dict(u=u, lines="\n".join(lines), ident=ident, strlit=strlit, hid=hid)
    return d, [], "tok%s(%d)" % (u, 1)


def hibyte_program(vals):
    """A program whose identifiers carry the given escaped bytes above 127, as function names
    and as local variables: every emitter maps the characters of a name through a table of its own."""
    vals = sorted(set(vals))
    defs = []
    uses = []
    for i, v in enumerate(vals):
        nm = "hb_%s_%sq%d" % (chr(v), chr(vals[(i * 7 + 3) % len(vals)]), i)
        defs.append("%s(n: SI): SI == { l_%sv: SI := n + %d; l_%sv rem 1009 }" % (nm, chr(v), i + 1, chr(v)))
        uses.append("%s(%d)" % (nm, i + 5))
    return '#include "axllib"\n\nSI ==> SingleInteger;\nimport from SI;\n\n' + "\n".join(defs) + \
        "\n\nprint << (" + " + ".join(uses) + ") << newline;\n"


def b_deeprec(u, rng, n):
    """Non-tail recursion: live temporaries in thousands of stack frames while collections run."""
    d = '''
dp%(u)s(n: SI): List SI == {
	n = 0 => nil;
	t: List SI := [n, n+1];
	r := dp%(u)s(n - 1);
	cons(first t + #r rem 3, r)
}
rcr%(u)s(n: SI): SI == {
	l := dp%(u)s n;
	s: SI := 0;
	for x in l repeat s := (s + x) rem %(M)d;
	s
}
''' % dict(u=u, M=M)
    return d, [], "rcr%s(%d)" % (u, rng.choice([200, 800, 1500, 2500]))


def b_ptrarray(u, rng, n):
    """Arrays whose elements are the only references to records and lists."""
    d = '''
PR%(u)s == Record(a: SI, l: List SI);
par%(u)s(n: SI): SI == {
	import from PR%(u)s, Array PR%(u)s, Array List SI;
	a: Array PR%(u)s := new(n, [0, nil]);
	for i: SI in 1..n repeat a.i := [i, [i, i+1, i+2]];
	b: Array List SI := new(n, nil);
	for i: SI in 1..n repeat b.i := [j for j: SI in 1..(i rem 5)];
	s: SI := 0;
	for i: SI in 1..n repeat s := (s + a.i.a + #(a.i.l) + #(b.i)) rem %(M)d;
	s
}
''' % dict(u=u, M=M)
    return d, [], "par%s(%d)" % (u, max(2, min(n, 4000)))


def b_strops(u, rng, n):
    """String primitives of the runtime: copy, substring, concat, map."""
    d = '''
sto%(u)s(n: SI): SI == {
	import from List String, Character;
	l: List String := nil;
	s: String := "abcdefghij";
	for i: SI in 1..n repeat {
		t: String := copy s;
		u: String := substring(t, 1 + i rem 5, 3);
		s := concat(u, t);
		if #s > %(lim)d then s := substring(s, 1, 10);
		l := cons(map((c: Character): Character +-> c, u), l);
	}
	k: SI := 0;
	for x in l repeat k := (k + #x) rem %(M)d;
	k + #s
}
''' % dict(u=u, lim=rng.choice([30, 60, 250, 1000, 5000]), M=M)
    return d, [], "sto%s(%d)" % (u, max(2, min(n, 2000)))


def b_arrgrow(u, rng, n):
    """Arrays grown element by element (the runtime re-allocates), generators into arrays,
    destructive list operations."""
    d = '''
agr%(u)s(n: SI): SI == {
	a: Array SI := empty();
	for i: SI in 1..n repeat extend!(a, i * %(k)d);
	b: Array SI := array(x + 1 for x in a);
	l: List SI := [x for x in b];
	l := reverse! copy l;
	l := concat!(l, [1, 2, 3]);
	s: SI := 0;
	for x in l repeat s := (s + x) rem %(M)d;
	s + #a
}
''' % dict(u=u, k=rng.range(2, 9), M=M)
    return d, [], "agr%s(%d)" % (u, max(2, min(n, 3000)))


def b_bigarray(u, rng, n):
    """Arrays of big integers: the elements are separately allocated objects referenced only
    through the array (FOAM `ANew BInt`)."""
    d = '''
bga%(u)s(n: SI): Integer == {
	import from Array Integer, PrimitiveArray Integer;
	a: Array Integer := new(n, 0);
	p: PrimitiveArray Integer := new(n, 0);
	big: Integer := 2^%(e)d;
	for i: SI in 1..n repeat { a.i := big * (i::Integer) + 7; p.i := big + (i::Integer) * (i::Integer) }
	l: List SI := nil;
	for i: SI in 1..%(churn)d repeat l := cons(i, l);
	s: Integer := 0;
	for i: SI in 1..n repeat s := s + a.i + p.i;
	s + (#l)::Integer
}
''' % dict(u=u, e=rng.choice([61, 62, 63, 64, 70, 200]), churn=rng.choice([2000, 20000, 100000]))
    return d, [], "bga%s(%d)" % (u, max(2, min(n, 500)))


def b_rawrec(u, rng, n):
    """Raw records mixing narrow scalar fields with pointers to separately allocated objects."""
    narrow = rng.choice(["Character", "Character", "Boolean"])
    lit = 'char "a"' if narrow == "Character" else "true"
    d = '''
rwm%(u)s(i: SI): RawRecord(c: %(T)s, n: Integer) == {
	import from RawRecord(c: %(T)s, n: Integer), %(T)s;
	big: Integer := 2^70;
	[%(lit)s, big + i::Integer]
}
rwr%(u)s(n: SI): Integer == {
	import from RawRecord(c: %(T)s, n: Integer), List RawRecord(c: %(T)s, n: Integer);
	l: List RawRecord(c: %(T)s, n: Integer) := nil;
	for i: SI in 1..n repeat l := cons(rwm%(u)s i, l);
	junk: List SI := nil;
	for i: SI in 1..%(churn)d repeat junk := cons(i, junk);
	s: Integer := 0;
	for r in l repeat s := s + r.n;
	s + (#junk)::Integer
}
''' % dict(u=u, T=narrow, lit=lit, churn=rng.choice([3000, 30000, 200000]))
    return d, [], "rwr%s(%d)" % (u, max(2, min(n, 300)))


def b_dyndom(u, rng, n):
    """Domains created at run time (List T for growing T): the runtime's lazy domain
    objects and its caches allocate and are kept alive across collections."""
    d = '''
dyd%(u)s(n: SI, T: BasicType, x: T): SI == {
	n = 0 => 1;
	import from List T;
	l: List T := [x, x];
	#l + dyd%(u)s(n - 1, List T, l)
}
dyn%(u)s(n: SI): SI == {
	s: SI := 0;
	for i: SI in 1..n repeat s := (s + dyd%(u)s(i rem %(k)d, SI, i)) rem %(M)d;
	s
}
''' % dict(u=u, k=rng.range(3, 9), M=M)
    return d, [], "dyn%s(%d)" % (u, max(2, min(n, 400)))


def b_chain(u, rng, n, length=None):
    """A long chain of cells linked through a field that is NOT the last word of the cell
    (the marker cannot follow it by tail call): deep marker recursion."""
    length = length or rng.choice([3000, 12000, 25000, 40000, 60000])
    d = '''
Cell%(u)s: with {
	nil:   %%;
	nil?:  %% -> Boolean;
	cell:  (%%, Integer) -> %%;
	next:  %% -> %%;
	value: %% -> Integer;
} == add {
	Rep == Record(next: %%, value: Integer);
	import from Rep;
	nil: %% == (nil$Pointer) pretend %%;
	nil?(c: %%): Boolean == nil?(c pretend Pointer)$Pointer;
	cell(n: %%, v: Integer): %% == per [n, v];
	next(c: %%): %% == rep(c).next;
	value(c: %%): Integer == rep(c).value;
}
chn%(u)s(n: SI): Integer == {
	import from Cell%(u)s, List Integer;
	c: Cell%(u)s := nil;
	big: Integer := 10^30;
	for i: SI in 1..n repeat c := cell(c, big + i::Integer);
	l: List Integer := nil;
	for i: SI in 1..%(churn)d repeat l := cons(10^25 + i::Integer, l);
	s: Integer := 0;
	while not nil? c repeat { s := s + value c; c := next c }
	s + (#l)::Integer
}
''' % dict(u=u, churn=rng.choice([20000, 100000, 300000]))
    return d, [], "chn%s(%d)" % (u, length)


def b_frag(u, rng, n):
    """Fragmentation followed by large objects: a long list is thinned so that the next
    collection frees many pages but no long run of adjacent ones, then arrays of tens
    to hundreds of kilobytes are requested."""
    cells = rng.choice([60000, 150000, 300000, 600000])
    keep = rng.range(200, 400)
    drop = rng.range(600, 2000)
    sz = rng.choice([9000, 20000, 20000, 50000, 130000])
    m = max(4, min(150, (cells * 40) // sz // 8))
    d = '''
frg%(u)s(n: SI): SI == {
	import from List Array SI;
	r: List SI := nil;
	i: SI := 1;
	while i <= n repeat { r := cons(i, r); i := i + 1 }
	p := r;
	while not empty? p repeat {
		k: SI := 1;
		while k < %(keep)d and not empty? rest p repeat { p := rest p; k := k + 1 }
		q := rest p;
		d: SI := 0;
		while d < %(drop)d and not empty? q repeat { q := rest q; d := d + 1 }
		setRest!(p, q);
		p := q;
	}
	as: List Array SI := nil;
	j: SI := 1;
	while j <= %(m)d repeat { as := cons(new(%(sz)d, j), as); j := j + 1 }
	t: SI := 0;
	for a in as repeat t := t + a.1 + a.%(sz)d;
	for x in r repeat t := (t + x rem 7) rem %(M)d;
	t
}
''' % dict(u=u, keep=keep, drop=drop, sz=sz, m=m, M=M)
    return d, [], "frg%s(%d)" % (u, cells)


def b_sizes(u, rng, n):
    """Large arrays of many DIFFERENT sizes, each followed by a few small arrays that stay alive;
    the large ones are dropped, so a collection leaves free pieces of many distinct sizes with live
    neighbours (a free tree of several levels); then larger and larger arrays are requested and
    everything that was kept is verified."""
    N = rng.choice([40, 70, 90, 140])
    base, step = rng.choice([300, 700, 1100, 2100]), rng.choice([8, 32, 40, 136])
    nb = rng.range(3, 9)
    small = rng.choice([20, 60, 100])
    gbase, gstep, gm = rng.choice([5000, 9000, 30000]), rng.choice([300, 700, 2500]), rng.choice([10, 40, 80])
    d = '''
szmk%(u)s(n: SI, tag: SI): PrimitiveArray SI == {
	import from PrimitiveArray SI;
	arr: PrimitiveArray SI := new(n, tag);
	arr.1 := n;
	arr
}
szsum%(u)s(l: List PrimitiveArray SI): SI == {
	import from PrimitiveArray SI;
	s: SI := 0;
	for x in l repeat {
		n := x.1;
		for k: SI in 2..n repeat s := (s + x.k) rem %(M)d;
		s := (s + n) rem %(M)d;
	}
	s
}
szbuild%(u)s(N: SI): List PrimitiveArray SI == {
	import from List PrimitiveArray SI;
	keep: List PrimitiveArray SI := nil;
	drop: List PrimitiveArray SI := nil;
	for i: SI in 1..N repeat {
		drop := cons(szmk%(u)s(%(base)d + %(step)d * i, i), drop);
		for j: SI in 1..%(nb)d repeat keep := cons(szmk%(u)s(%(small)d, 100 * i + j), keep);
	}
	keep := cons(szmk%(u)s(2, szsum%(u)s drop), keep);
	keep
}
szchurn%(u)s(R: SI): SI == {
	import from List PrimitiveArray SI;
	t: SI := 0;
	for r: SI in 1..R repeat {
		junk: List PrimitiveArray SI := nil;
		for j: SI in 1..200 repeat junk := cons(szmk%(u)s(20, j), junk);
		t := (t + szsum%(u)s junk) rem %(M)d;
	}
	t
}
szs%(u)s(n: SI): SI == {
	import from List PrimitiveArray SI;
	keep := szbuild%(u)s(%(N)d);
	t := szchurn%(u)s(n);
	big: List PrimitiveArray SI := nil;
	for i: SI in 1..%(gm)d repeat big := cons(szmk%(u)s(%(gbase)d + %(gstep)d * i, i), big);
	t := (t + szsum%(u)s keep) rem %(M)d;
	t := (t + szsum%(u)s big) rem %(M)d;
	t := (t + szchurn%(u)s(10)) rem %(M)d;
	(t + szsum%(u)s keep) rem %(M)d
}
''' % dict(u=u, M=M, N=N, base=base, step=step, nb=nb, small=small, gbase=gbase, gstep=gstep, gm=gm)
    return d, [], "szs%s(%d)" % (u, rng.choice([20, 60]))


def b_bigdrop(u, rng, n):
    """One very large object per round (a section of its own), built deep in a recursion so
    that no stale copy of its address stays in the frames that run later, dropped, and
    followed by medium-sized allocations that are kept and verified at the end.  The size
    grows by a few bytes per round so that the unused tail of the section takes every
    length."""
    base = rng.choice([8200, 16000, 40000, 40000, 100000])
    step = rng.choice([1, 2, 4, 4, 8, 32])
    med = rng.choice([40, 64, 100, 300])
    rounds = rng.range(16, 40)
    depth = rng.choice([20, 80, 200])
    d = '''
bdd%(u)s(d: SI, n: SI): SI == {
	import from PrimitiveArray SI;
	d > 0 => 1 + bdd%(u)s(d - 1, n);
	a: PrimitiveArray SI := new(n, 7);
	a.1 + a.n
}
bdr%(u)s(rounds: SI): SI == {
	import from List Array SI;
	keep: List Array SI := nil;
	tot: SI := 0;
	j: SI := 0;
	while j < rounds repeat {
		tot := (tot + bdd%(u)s(%(depth)d, %(base)d + %(step)d * j)) rem %(M)d;
		b: Array SI := new(%(med)d, j);
		keep := cons(b, keep);
		l: List SI := nil;
		k: SI := 1;
		while k <= 200 repeat { l := cons(k, l); k := k + 1 }
		for x in l repeat tot := (tot + x) rem %(M)d;
		j := j + 1;
	}
	for kb in keep repeat { i: SI := 1; while i <= %(med)d repeat { tot := (tot + kb.i) rem %(M)d; i := i + 1 } }
	tot
}
''' % dict(u=u, base=base, step=step, med=med, depth=depth, M=M)
    return d, [], "bdr%s(%d)" % (u, rounds)


BLOCKS = [("list", b_list, 4), ("record", b_record, 4), ("node", b_node, 2), ("closure", b_closure, 2),
          ("generator", b_generator, 2), ("bigint", b_bigint, 3), ("bigops", b_bigops, 2), ("scalararr", b_scalararr, 3), ("rterr", b_rterr, 3), ("string", b_string, 2), ("table", b_table, 2),
          ("array", b_array, 3), ("domain", b_domain, 1),
          ("docs", b_docs, 2), ("exn", b_exn, 2), ("union", b_union, 2), ("float", b_float, 1), ("tokens", b_tokens, 1),
          ("deeprec", b_deeprec, 2), ("ptrarray", b_ptrarray, 2), ("dyndom", b_dyndom, 2),
          ("strops", b_strops, 2), ("arrgrow", b_arrgrow, 2), ("bigarray", b_bigarray, 3), ("rawrec", b_rawrec, 0),	# rawrec: compiled route only (the interpreter has no RRFmt)
          ("frag", b_frag, 0), ("chain", b_chain, 0), ("bigdrop", b_bigdrop, 0), ("sizes", b_sizes, 0)]	# weight 0: only when forced (expensive)


def gen_blocks(rng, size="small", force=()):
    """Returns list of (kind, decl, call)."""
    nb = rng.range(3, 8) if size != "tiny" else rng.range(1, 3)
    out = []
    forced = [b for b in BLOCKS if b[0] in force]
    for i in range(nb + len(forced)):
        kind, fn, _ = forced[i - nb] if i >= nb else rng.weighted([(b, b[2]) for b in BLOCKS if b[2] > 0])
        if size == "small":
            n = rng.loguniform(5, 120)
        elif size == "tiny":
            n = rng.loguniform(2, 30)
        else:
            n = rng.loguniform(50, 3000)
        if kind == "record" and size == "heavy":
            n = min(n, 1500)
        if kind == "array":
            n = rng.choice([n, 2, 3, 16, 31, 32, 33, 63, 64, 65, 255, 256, 257, 511, 512, 513, 1024, 4096]) if size == "heavy" else n
        d, imps, call = fn("%d" % i, rng.fork(kind), n)
        out.append((kind, d, call))
    return out


FINALE = '''
finq(a: Integer, b: Integer): Integer == {
	try a quo b catch E in {
		true => -1;
		never;
	}
}
'''


def render(blocks, finale=False):
    """finale: the program ends with its FIRST use of a runtime service that is looked up late - a
    runtime error raised by the library (big-integer division by zero) and caught - after all the
    other work and whatever collections fell into it."""
    s = HEADER
    uses_rterr = any(kind == "rterr" for kind, d, call in blocks)
    for kind, d, call in blocks:
        s += d
    if finale and not uses_rterr:
        s += FINALE
    s += "\nmain(): () == {\n"
    for i, (kind, d, call) in enumerate(blocks):
        s += '\tprint << "@%d " << %s << newline;\n' % (i + 1, call)
    if finale and not uses_rterr:
        s += '\tprint << "@fin " << finq(10^20, 7) << " " << finq(10^20, 0) << newline;\n'
    s += "}\nmain();\n"
    return s


def render_loop(blocks, gc=True):
    """The same program as a SESSION for the interactive loop: every block's call is a top-level step
    of its own, with `#int gc' (the loop's own collection command, which first clears the part of the
    interpreter's stacks that is out of use) between the steps."""
    s = "#int verbose off\n#int timing off\n" + HEADER
    for kind, d, call in blocks:
        s += d
    # two passes: what a step left behind (deep interpreter stacks, caches) meets the collection
    # command and is then used again
    for rnd in (0, 1):
        for i, (kind, d, call) in enumerate(blocks):
            s += 'print << "@%d.%d " << %s << newline;\n' % (rnd, i + 1, call)
            if gc:
                s += "#int gc\n"
    return s


def gen_program(rng, size="small", force=(), finale=False):
    return render(gen_blocks(rng, size, force), finale=finale)


def gen_program_parts(rng, size="small"):
    """The same kind of program split over several local files: main.as includes one
    part per block.  Returns (main text, {part name: text})."""
    blocks = gen_blocks(rng, size)
    parts = {}
    s = HEADER
    for i, (kind, d, call) in enumerate(blocks):
        fn = "part%d.as" % (i + 1)
        parts[fn] = d
        s += '#include "%s"\n' % fn
    s += "\nmain(): () == {\n"
    for i, (kind, d, call) in enumerate(blocks):
        s += '\tprint << "@%d " << %s << newline;\n' % (i + 1, call)
    s += "}\nmain();\n"
    return s, parts


MICRO_SKIP = ("frag", "chain", "bigdrop", "sizes", "rawrec", "tokens", "docs")


def micro_programs(rng):
    """One small program per block kind (a handful of iterations): small enough that a collection
    at EVERY allocation of the program's own work is affordable.  Returns [(name, text)]."""
    out = []
    for kind, fn, _w in BLOCKS:
        if kind in MICRO_SKIP:
            continue
        n = rng.range(3, 7)
        d = fn("0", rng.fork(kind), n)
        call = d[2]
        # the call carries the block's own choice of size: replace it by the small one
        call = call[:call.index("(")] + "(%d)" % n
        out.append(("m_%s.as" % kind, render([(kind, d[0], call)])))
    return out


def break_program(text, rng):
    """An ill-typed variant of a generated program: a handful of erroneous statements at the end of
    main() - undefined names, wrong argument types and counts, an unknown domain, an ambiguous
    literal - so that the compiler prints diagnostics with lists of candidate meanings and types."""
    bad = ['print << nosuch%d(1) << newline;' % rng.range(1, 99),
           'print << (1 + "a") << newline;',
           'xq%d: SI := "str";' % rng.range(1, 99),
           'import from NoSuchDomain%d;' % rng.range(1, 99),
           'print << first(3) << newline;',
           'print << cons("x", [1, 2]) << newline;',
           'print << 12345678901234567890123 rem "7" << newline;',
           'yq%d := (2, 3) + 1;' % rng.range(1, 99),
           'print << concat("a", 3) << newline;',
           'zq%d: Integer := nil;' % rng.range(1, 99)]
    pick = rng.sample(bad, rng.range(3, 6))
    return text.replace("}\nmain();\n", "".join("\t%s\n" % b for b in pick) + "}\nmain();\n")

