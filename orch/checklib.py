"""Shared skeleton of the checks: argument handling, delta debugging, the
violation gate (same plan twice -> same verdict; minimised replay reproduces
in a fresh process), known findings, exit codes."""
import fnmatch
import json
import os
import sys
import time

import vsim


def ddmin(items, fails, max_runs=400):
    """Greedy delta debugging: smallest sublist (order kept) for which
    fails(sublist) is still true.  `fails` must be deterministic."""
    runs = [0]

    def test(sub):
        runs[0] += 1
        return fails(sub)
    cur = list(items)
    n = 2
    while len(cur) >= 2 and runs[0] < max_runs:
        chunk = max(1, len(cur) // n)
        reduced = False
        i = 0
        while i < len(cur) and runs[0] < max_runs:
            cand = cur[:i] + cur[i + chunk:]
            if cand and test(cand):
                cur = cand
                n = max(n - 1, 2)
                reduced = True
            else:
                i += chunk
        if not reduced:
            if chunk == 1:
                break
            n = min(len(cur), n * 2)
    # final single-element pass
    i = 0
    while i < len(cur) and len(cur) > 1 and runs[0] < max_runs:
        cand = cur[:i] + cur[i + 1:]
        if test(cand):
            cur = cand
        else:
            i += 1
    return cur, runs[0]


def ddmin_par(items, fails, max_rounds=40, nproc=16):
    """Delta debugging with the candidates of one granularity evaluated in
    parallel; the lowest-index successful candidate is taken, so the result is
    a pure function of `fails` (no dependence on completion order)."""
    cur = list(items)
    n = 2
    rounds = 0
    runs = 0
    while len(cur) >= 2 and rounds < max_rounds:
        rounds += 1
        chunk = max(1, len(cur) // n)
        cands = []
        i = 0
        while i < len(cur):
            c = cur[:i] + cur[i + chunk:]
            if c:
                cands.append(c)
            i += chunk
        if not cands:
            break
        res = vsim.pmap(fails, cands, nproc=nproc)
        runs += len(cands)
        hit = [k for k, ok in enumerate(res) if ok]
        if hit:
            cur = cands[hit[0]]
            n = max(n - 1, 2)
        else:
            if chunk == 1:
                break
            n = min(len(cur), n * 2)
    return cur, runs


class Outcome:
    """Accumulates what a check run found."""

    def __init__(self, pid):
        self.pid = pid
        self.violations = []	# dicts: key, cls, detail, replay
        self.known = []
        self.nondet = []
        self.findings = vsim.load_findings().get(pid, {})
        self.matched = {}	# listed finding -> violation keys of this run it covers

    def classify(self, key):
        """Returns the finding text if `key` is a listed known finding."""
        if key in self.findings:
            self.matched.setdefault(key, []).append(key)
            return self.findings[key]
        for k in self.findings:
            if k.endswith("*") and "*" not in k[:-1] and key.startswith(k[:-1]):
                self.matched.setdefault(k, []).append(key)
                return self.findings[k]
            if "*" in k[:-1] and fnmatch.fnmatchcase(key, k):
                self.matched.setdefault(k, []).append(key)
                return self.findings[k]
        return None

    def report(self):
        """Print lines, return exit code."""
        for pat in sorted(self.matched):
            ks = sorted(set(self.matched[pat]))
            vsim.say("KNOWN-FINDING: property=%s key=%s %s [matched this run: %s]" %
                     (self.pid, pat, self.findings[pat][:160], ", ".join(ks[:12]) + (" ..." if len(ks) > 12 else "")))
        for n in self.nondet:
            vsim.say("NONDETERMINISM property=%s %s" % (self.pid, n))
        for v in self.violations:
            vsim.say("VIOLATION property=%s replay=%s" % (self.pid, v["replay"]))
            vsim.say("  class=%s key=%s %s" % (v.get("cls"), v.get("key"), v.get("detail", "")[:300]))
        if self.violations:
            return 1
        if self.nondet:
            return 2
        return 0


def parse_args(argv):
    tier = None
    replay = None
    rest = []
    i = 0
    while i < len(argv):
        a = argv[i]
        if a in ("quick", "thorough"):
            tier = a
        elif a == "--replay" and i + 1 < len(argv):
            replay = argv[i + 1]
            i += 1
        else:
            rest.append(a)
        i += 1
    return vsim.tier_from_env(tier), replay, rest


class Budget:
    def __init__(self, seconds):
        self.t0 = time.time()
        self.limit = seconds

    def left(self):
        return self.limit - (time.time() - self.t0)

    def over(self):
        return self.left() <= 0

    def used(self):
        return time.time() - self.t0
