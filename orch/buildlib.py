"""Out-of-tree build of the simulated worlds from /repo's current working tree.

Products (under /verif/.build/<hash>/):
  aldor.sim      compiler + interpreter + libaldorsim, hooks on
  libfoam.sim.a  C runtime (-DFOAM_RTS) with hooks on, incl. runtime.o
  aldorsim.o     simulator object to link into compiled Aldor programs
  libgen.sim.a   libgen + libport objects (for the allocator harness)
  stosim         allocator harness, compiler variant of store.c
  stosim.rts     allocator harness, runtime variant of store.c
  simrun         launcher (ASLR off, rlimits)
The directory is keyed by a hash of every input, so an unchanged tree costs
nothing and an edited tree is always rebuilt.  Nothing from /repo's own object
files is linked; the Aldor-source libraries (.al/.a built from .as) are reused
as /repo's own build left them.
"""
import fcntl
import hashlib
import json
import os
import re
import shutil
import subprocess
import sys
import time
from concurrent.futures import ThreadPoolExecutor

VERIF = os.path.dirname(os.path.dirname(os.path.abspath(__file__)))
# The checks always build /repo.  VERIF_REPO lets the self-tests point the
# *compiled sources* at a scratch worktree with a mutant applied; prebuilt
# Aldor libraries, runtime.c and configuration always come from LIBREPO.
REPO = os.environ.get("VERIF_REPO", "/repo")
LIBREPO = "/repo"
BUILD_ROOT = os.path.join(VERIF, ".build")

GUARD = "ALDOR_VERIF"
OPT = os.environ.get("VERIF_OPT", "-O1")
CFLAGS = ["-w", OPT, "-g", "-D" + GUARD, '-DVCSVERSION="verif"']
WRAPS = ["fopen", "sbrk", "time", "times", "clock", "getpid", "unlink", "rename", "mkdir", "stat", "main"]
WRAPFLAG = "-Wl," + ",".join("--wrap=" + w for w in WRAPS)

RTS_FALLBACK = ["aldorlib.c", "btree.c", "compopt.c", "dword.c", "foam_c.c", "foam_cfp.c",
                "foamopt.c", "opsys.c", "output.c", "stdc.c", "store.c", "table.c", "timer.c",
                "util.c", "xfloat.c"]


def src_dir(repo=None):
    return os.path.join(repo or REPO, "aldor", "aldor", "src")


def _am_var(text, name):
    m = re.search(r"^%s\s*=\s*((?:.*\\\n)*.*)$" % re.escape(name), text, re.M)
    if not m:
        return None
    body = m.group(1).replace("\\\n", " ")
    return [t for t in body.split() if t.endswith(".c")]


def source_lists(repo=None):
    sd = src_dir(repo)
    am = open(os.path.join(sd, "Makefile.am")).read()
    comp = []
    for v in ("libgen_a_SOURCES", "libstruct_a_SOURCES", "libphase_a_SOURCES",
              "libport_a_SOURCES", "aldor_SOURCES"):
        lst = _am_var(am, v)
        if not lst:
            raise RuntimeError("cannot find %s in Makefile.am" % v)
        comp += lst
    seen, out = set(), []
    for c in comp:
        if c not in seen:
            seen.add(c)
            out.append(c)
    gen = _am_var(am, "libgen_a_SOURCES") + _am_var(am, "libport_a_SOURCES")
    rts = None
    try:
        fam = open(os.path.join(repo or REPO, "aldor", "aldor", "lib", "libfoam", "Makefile.am")).read()
        rts = _am_var(fam, "runtime_CSOURCES")
    except OSError:
        pass
    rts = (rts or RTS_FALLBACK) + ["bigint.c", "foam_i.c"]
    return out, gen, rts


def _hash_inputs(repo=None):
    sd = src_dir(repo)
    h = hashlib.sha256()
    h.update(("recipe:2 flags:" + " ".join(CFLAGS) + WRAPFLAG).encode())
    files = []
    for root, dirs, names in os.walk(sd):
        rel = os.path.relpath(root, sd)
        if rel not in (".", "java"):
            dirs[:] = []
            continue
        dirs[:] = [d for d in dirs if d == "java"]
        for n in names:
            if n.endswith((".c", ".h", ".h0", ".z", ".msg", ".sed", ".typ")) and not n.endswith(("_t.c",)):
                files.append(os.path.join(root, n))
    rt = os.path.join(LIBREPO, "aldor", "aldor", "lib", "libfoam", "al", "runtime.c")
    if os.path.exists(rt):
        files.append(rt)
    for d in ("sim", "harness"):
        dd = os.path.join(VERIF, d)
        if os.path.isdir(dd):
            for n in sorted(os.listdir(dd)):
                if n.endswith((".c", ".h")):
                    files.append(os.path.join(dd, n))
    for f in sorted(files):
        try:
            data = open(f, "rb").read()
        except OSError:
            continue
        h.update(f.encode())
        h.update(hashlib.sha256(data).digest())
    return h.hexdigest()[:20]


def _run(cmd, cwd=None):
    p = subprocess.run(cmd, cwd=cwd, stdout=subprocess.PIPE, stderr=subprocess.STDOUT, text=True)
    return p.returncode, p.stdout


def _regen(repo=None):
    """Regenerate axl_y.c / comsgdb.[ch] in place when their inputs are newer
    (what /repo's own make would do; they are untracked build artefacts)."""
    sd = src_dir(repo)
    tools = os.path.join(LIBREPO, "aldor", "aldor", "tools", "unix")
    if os.path.realpath(sd) != os.path.realpath(src_dir(LIBREPO)):
        for n in ("axl_y.c", "comsgdb.c", "comsgdb.h", "opsys_port.h"):	# untracked build artefacts
            if not os.path.exists(os.path.join(sd, n)) and os.path.exists(os.path.join(src_dir(LIBREPO), n)):
                shutil.copy2(os.path.join(src_dir(LIBREPO), n), os.path.join(sd, n))

    def newer(a, b):
        try:
            return os.path.getmtime(a) > os.path.getmtime(b)
        except OSError:
            return not os.path.exists(b)
    y = os.path.join(sd, "axl_y.c")
    if newer(os.path.join(sd, "axl.z"), y) and os.path.exists(os.path.join(tools, "zacc")):
        rc, out = _run([os.path.join(tools, "zacc"), "-p", "-y", "axl_y.yt", "-c", "axl_y.c", "axl.z"], cwd=sd)
        if rc == 0 and os.path.exists(os.path.join(sd, "axl_y.sed")):
            rc2, out2 = _run(["sed", "-f", "axl_y.sed", "axl_y.c"], cwd=sd)
            if rc2 == 0:
                open(y, "w").write(out2)
    m = os.path.join(sd, "comsgdb.msg")
    if newer(m, os.path.join(sd, "comsgdb.c")) and os.path.exists(os.path.join(tools, "msgcat")):
        import tempfile
        with tempfile.TemporaryDirectory(dir="/dev/shm") as td:
            shutil.copy(m, os.path.join(td, "comsgdb.msg"))
            rc, out = _run([os.path.join(tools, "msgcat"), "-h", "-c", "-detab", "comsgdb"], cwd=td)
            if rc == 0:
                for n in ("comsgdb.c", "comsgdb.h"):
                    shutil.copy(os.path.join(td, n), os.path.join(sd, n))


def _compile_many(jobs, nproc=16):
    """jobs: list of (src, obj, extra flags, include dirs)."""
    def one(j):
        src, obj, extra, incs = j
        cmd = ["gcc"] + CFLAGS + extra + sum([["-I", i] for i in incs], []) + ["-c", src, "-o", obj]
        rc, out = _run(cmd)
        return (rc, src, out)
    with ThreadPoolExecutor(max_workers=nproc) as ex:
        res = list(ex.map(one, jobs))
    bad = [(s, o) for rc, s, o in res if rc != 0]
    if bad:
        msg = "\n".join("%s:\n%s" % (s, o[-3000:]) for s, o in bad[:5])
        raise RuntimeError("compilation failed:\n" + msg)


def _prune(keep):
    """Remove old build directories: never the current one, never one of the four most
    recent, never one used in the last two hours (a running check may still need it)."""
    try:
        ds = [d for d in os.listdir(BUILD_ROOT) if os.path.isdir(os.path.join(BUILD_ROOT, d)) and d != keep]
    except OSError:
        return
    ds.sort(key=lambda d: os.path.getmtime(os.path.join(BUILD_ROOT, d)))
    now = time.time()
    for d in ds[:-4] if len(ds) > 4 else []:
        if now - os.path.getmtime(os.path.join(BUILD_ROOT, d)) > 7200:
            shutil.rmtree(os.path.join(BUILD_ROOT, d), ignore_errors=True)


def build(repo=None, verbose=False):
    repo = repo or REPO
    os.makedirs(BUILD_ROOT, exist_ok=True)
    lock = open(os.path.join(BUILD_ROOT, "lock"), "w")
    fcntl.flock(lock, fcntl.LOCK_EX)
    try:
        _regen(repo)
        key = _hash_inputs(repo)
        bd = os.path.join(BUILD_ROOT, key)
        info_path = os.path.join(bd, "build.json")
        if os.path.exists(info_path):
            os.utime(bd)
            return json.load(open(info_path))
        t0 = time.time()
        if os.path.isdir(bd):
            shutil.rmtree(bd)
        os.makedirs(os.path.join(bd, "comp", "java"))
        os.makedirs(os.path.join(bd, "rts"))
        sd = src_dir(repo)
        comp, gen, rts = source_lists(repo)
        jobs = []
        for c in comp:
            jobs.append((os.path.join(sd, c), os.path.join(bd, "comp", c[:-2] + ".o"), [], [sd]))
        for c in rts:
            jobs.append((os.path.join(sd, c), os.path.join(bd, "rts", c[:-2] + ".o"), ["-DFOAM_RTS"], [sd]))
        rt = os.path.join(LIBREPO, "aldor", "aldor", "lib", "libfoam", "al", "runtime.c")
        if not os.path.exists(rt):
            raise RuntimeError("prebuilt %s missing" % rt)
        jobs.append((rt, os.path.join(bd, "rts", "runtime.o"), ["-DFOAM_RTS"], [sd]))
        sim = os.path.join(VERIF, "sim", "aldorsim.c")
        jobs.append((sim, os.path.join(bd, "aldorsim.o"), [], []))
        for variant, extra in (("comp", []), ("rts", ["-DFOAM_RTS"])):
            hs = os.path.join(VERIF, "harness", "stosim.c")
            if os.path.exists(hs):
                jobs.append((hs, os.path.join(bd, "stosim.%s.o" % variant), extra, [sd]))
        _compile_many(jobs)

        def link(out, objs, libs, wrap=True, extra=()):
            cmd = ["gcc", "-g", "-o", out] + list(extra) + objs + libs + ([WRAPFLAG] if wrap else []) + ["-lm"]
            rc, o = _run(cmd)
            if rc != 0:
                raise RuntimeError("link failed for %s:\n%s" % (out, o[-4000:]))

        comp_objs = [os.path.join(bd, "comp", c[:-2] + ".o") for c in comp]
        link(os.path.join(bd, "aldor.sim"), comp_objs + [os.path.join(bd, "aldorsim.o")], [])
        # the same objects linked at another address (position dependent, low text segment): the
        # address of every function, string literal and static table differs from the first image
        os.makedirs(os.path.join(bd, "imgb"), exist_ok=True)
        link(os.path.join(bd, "imgb", "aldor.sim"), comp_objs + [os.path.join(bd, "aldorsim.o")], [],
             extra=["-no-pie", "-Wl,-Ttext-segment=0x10000000"])
        # archives
        gen_objs = [os.path.join(bd, "comp", c[:-2] + ".o") for c in gen]
        rc, o = _run(["ar", "crs", os.path.join(bd, "libgen.sim.a")] + gen_objs)
        if rc != 0:
            raise RuntimeError(o)
        rts_objs = [os.path.join(bd, "rts", c[:-2] + ".o") for c in rts] + [os.path.join(bd, "rts", "runtime.o")]
        rc, o = _run(["ar", "crs", os.path.join(bd, "libfoam.sim.a")] + rts_objs)
        if rc != 0:
            raise RuntimeError(o)
        if os.path.exists(os.path.join(bd, "stosim.comp.o")):
            link(os.path.join(bd, "stosim"), [os.path.join(bd, "stosim.comp.o"), os.path.join(bd, "aldorsim.o")],
                 [os.path.join(bd, "libgen.sim.a")])
            link(os.path.join(bd, "stosim.rts"), [os.path.join(bd, "stosim.rts.o"), os.path.join(bd, "aldorsim.o")],
                 [os.path.join(bd, "libfoam.sim.a")])
        rc, o = _run(["gcc", "-O1", "-o", os.path.join(bd, "simrun"), os.path.join(VERIF, "sim", "simrun.c")])
        if rc != 0:
            raise RuntimeError(o)
        info = {
            "dir": bd, "key": key, "repo": repo, "src": sd,
            "aldor": os.path.join(bd, "aldor.sim"),
            "aldor_b": os.path.join(bd, "imgb", "aldor.sim"),
            "simrun": os.path.join(bd, "simrun"),
            "simobj": os.path.join(bd, "aldorsim.o"),
            "libfoam": os.path.join(bd, "libfoam.sim.a"),
            "libgen": os.path.join(bd, "libgen.sim.a"),
            "stosim": os.path.join(bd, "stosim"),
            "stosim_rts": os.path.join(bd, "stosim.rts"),
            "wrapflag": WRAPFLAG,
            "cflags": CFLAGS,
            "build_s": round(time.time() - t0, 2),
            "n_comp_sources": len(comp), "n_rts_sources": len(rts) + 1,
        }
        json.dump(info, open(info_path, "w"), indent=1)
        _prune(key)
        if verbose:
            print("built %s in %.1fs" % (bd, info["build_s"]), file=sys.stderr)
        return info
    finally:
        fcntl.flock(lock, fcntl.LOCK_UN)
        lock.close()


def aldor_args(repo=None):
    """Fixed configuration options (these are *input*, identical in every world)."""
    repo = LIBREPO
    return ["-Nfile=%s/aldor/aldor/src/aldor.conf" % repo,
            "-I%s/aldor/lib/axllib/include" % repo,
            "-Y%s/aldor/lib/axllib/src" % repo,
            "-Y%s/aldor/aldor/lib/libfoam/al" % repo,
            "-I%s/aldor/aldor/src" % repo]


if __name__ == "__main__":
    info = build(verbose=True)
    print(info["dir"])
