"""bin/selftest determinism [N]

Proves that one plan is one execution: for every world type N seeded plans are
executed twice, at two worker counts (16 and 3), in fresh scratch directories
of different names; event-log hashes and outcomes must be identical.  Exit 0
when no mismatch, 1 otherwise.  Results in selftest/determinism.json."""
import json
import os
import sys
import time

import buildlib
import vsim
import worlds
import progen
import sessgen
from checks import c08, c09, c10, c13, c17, c18


def main(argv):
    n = int(argv[0]) if argv else 60
    seed = vsim.seed_from_env() + 7000
    binfo = buildlib.build()
    report = {}
    bad = 0
    t0 = time.time()
    with vsim.Scratch("detA") as sa, vsim.Scratch("detBBBBBBBB") as sb:
        def both(name, items, fn):
            nonlocal bad
            ra = vsim.pmap(lambda it: fn(sa, it), items, nproc=16)
            rb = vsim.pmap(lambda it: fn(sb, it), items, nproc=3)
            mism = [i for i, (a, b) in enumerate(zip(ra, rb)) if a != b]
            report[name] = {"plans": len(items), "mismatches": len(mism), "first": mism[:5],
                            "distinct_hashes": len(set(ra))}
            bad += len(mism)
            vsim.say("determinism %-22s %4d plans x2  mismatches=%d  distinct=%d" % (name, len(items), len(mism), len(set(ra))))

        # C10 allocator histories (both variants)
        items = []
        for i in range(n * 6):
            plan, hist, meta = c10.gen_history(vsim.Rng(seed, "c10", i), "quick")
            if meta["n"] > 3000:
                continue
            items.append(("comp" if i % 2 == 0 else "rts", plan, hist))

        def f10(sc, it):
            r = c10.run_history(binfo, sc, it[0], it[1], it[2])
            return (r["log_hash"], r["kind"], r.get("detail"))
        both("C10 histories", items, f10)

        # compiler worlds under C08 perturbations
        cs = worlds.corpus(max_bytes=3000)
        vsim.Rng(seed, "det-corpus").shuffle(cs)
        progs = [("hello.as", worlds.HELLO)] + [(nm, open(p, "rb").read()) for nm, p, _ in cs[:5]] + \
                [("g%d.as" % g, progen.gen_program(vsim.Rng(seed, "det-gen", g), "small").encode()) for g in range(3)]
        items = []
        for i in range(n):
            nm, text = progs[i % len(progs)]
            rng = vsim.Rng(seed, "det08", i)
            items.append((nm, text, c08.gen_opts(rng), c08.gen_perturbation(rng, 150000)))

        def f08(sc, it):
            r = c08.run_compile(binfo, sc, {it[0]: it[1]}, it[2], [it[0]], it[3])
            return (r.log_hash(), r.outcome_hash())
        both("C08 compiler worlds", items, f08)

        # C18 faulted compiler worlds
        ref = c18.reference(binfo, sa, "hello.as", worlds.HELLO, worlds.OUT_CLASSES)
        plans = c18.gen_plans(vsim.Rng(seed, "det18"), ref, worlds.OUT_CLASSES, "quick")[:n]

        def f18(sc, pl):
            r = c18.run_plan(binfo, sc, "hello.as", worlds.HELLO, worlds.OUT_CLASSES, pl, ref)
            return (r.log_hash(), r.outcome_hash())
        both("C18 disk-fault worlds", plans, f18)

        # C17 reader worlds
        subjects, _ = c17.make_subjects(binfo, sa, seed, "quick")
        items = []
        for si, s in enumerate(subjects):
            rng = vsim.Rng(seed, "det17", si)
            dm = c17.gen_damages(rng, s, "quick")
            for d in rng.sample(dm, min(len(dm), max(1, n // len(subjects)))):
                items.append((si, s["routes"][0], d))

        def f17(sc, it):
            s = subjects[it[0]]
            r = c17.read_world(binfo, sc, s, it[1], c17.apply_damage(s["data"], it[2]))
            return (r.log_hash(), r.outcome_hash())
        both("C17 reader worlds", items, f17)

        # C13 sessions (full session world only)
        items = [c13.gen_session(seed, i, "quick") for i in range(n)]

        def f13(sc, s):
            r = c13.run_loop(binfo, sc, sessgen.script_of(s["forms"], s["dialect"], s["final_nl"]), s["dialect"], s["plan"], s["chunks"])
            return (r.log_hash(), r.out, r.rc)
        both("C13 loop sessions", items, f13)

        # C09 compiled and interpreted programs under forced schedules
        prog = {"name": "g.as", "text": progen.gen_program(vsim.Rng(seed, "det09"), "heavy").encode()}
        d, msg = c09.build_exe(binfo, sa, prog["name"], prog["text"], "-Q2", "-O1")
        if d:
            prog["exe_dir"] = d
            items = []
            for i in range(n):
                rng = vsim.Rng(seed, "det09s", i)
                route = "exe" if i % 3 else "interp"
                lines, meta = c09.gen_schedule(rng, route, 40000 if route == "exe" else 400000, 0, "quick")
                items.append((route, c09.base_plan(rng, route) + lines))

            def f09(sc, it):
                r = c09.run_prog(binfo, sc, prog, it[0], it[1])
                return (r.log_hash(), r.out, r.rc)
            both("C09 program worlds", items, f09)
            vsim.cleanup_world(d)
    report["wall_s"] = round(time.time() - t0, 1)
    report["source_key"] = binfo["key"]
    os.makedirs(os.path.join(vsim.VERIF, "selftest"), exist_ok=True)
    json.dump(report, open(os.path.join(vsim.VERIF, "selftest", "determinism.json"), "w"), indent=1)
    vsim.say("determinism: %d mismatches in total, %.1fs" % (bad, report["wall_s"]))
    return 1 if bad else 0


if __name__ == "__main__":
    sys.exit(main(sys.argv[1:]))
